"""C08 - indexing a catalog commutes with evaluating its properties (SourceCatalog, ApertureStats);
a sliced catalog is independent of its parent.

Bounded run-time contract driver (engine E4): exhaustive over public properties x index forms x
evaluation histories for small catalogs built deterministically from a JSON-able configuration.
"""
import copy
import hashlib
import math

import numpy as np

BOUNDS = (
    "Catalogs of 1-5 sources on an 18x18 image built from a configuration record (n, seed, options). "
    "SourceCatalog options: wcs on/off, error, background, units (Jy), localbkg_width in {0,3}, "
    "apermask_method in {correct, mask, none}, detection_cat, one completely masked (all-NaN) source, "
    "non-consecutive labels, 10 user extra properties (ndarray, Quantity, (n,2) array, list of str, "
    "and the columns added by circular_photometry / kron_photometry / fluxfrac_radius with name=).  "
    "ApertureStats options: Circular / Elliptical / CircularAnnulus / Rectangular / SkyCircular "
    "apertures, error, mask, wcs, sigma_clip, sum_method in {exact, center, subpixel}, per-aperture "
    "local_bkg, units, one aperture off the image, one fully masked.  Properties: every name in "
    "cat.properties + extra_properties (SourceCatalog: 82 + 10) or ApertureStats.properties + id, ids "
    "(49 + 2; isscalar and n_apertures are catalog-level and compared with their definition).  "
    "Index forms for length n: every int in [-n, n-1], numpy ints, 8 slices (incl. steps 2, -1, -2), "
    "integer lists (single, reversed, duplicates, negative), the same as numpy arrays, boolean masks "
    "as list and array [quick, n >= 4: every second list also as array / every second mask also as list] (first, last, alternating, all, random; never empty), get_label/get_id for "
    "every label, get_labels/get_ids with list / tuple / array / scalar arguments (permuted, "
    "single), and chained indexing cat[i1][i2] (i1 a reversal / rotation / permutation / mask, i2 "
    "get_label, get_labels, int, slice, list).  Empty selections are excluded.  Histories: (after) nothing evaluated before indexing; "
    "(before) every property evaluated on the parent first; (mixed) a random subset evaluated before "
    "in random order and all read after in random order [quick 1, thorough 4 subsets]; (recompute) "
    "every property cached before, then each property in turn dropped from the child's cache and "
    "recomputed from the sliced private intermediates; in each history the parent is re-read after "
    "the child was used and must still report the reference values.  Equality is exact (NaN == NaN; "
    "Quantity unit and value; SkyCoord frame/lon/lat; MaskedArray mask and unmasked data; "
    "BoundingBox / slices / apertures field by field; None == None; list, tuple and object arrays "
    "compared element-wise).  Independence: 13 operations (add, add with overwrite, rename, remove, "
    "remove several, remove all, circular_photometry / kron_photometry / fluxfrac_radius with a new "
    "name and with overwrite of an inherited name) applied to parent or child for up to 7 index forms (quick: 4, on the first 4 SourceCatalog configurations); the "
    "other catalog's extra_properties list, extra values, to_table (default columns + extras) and "
    "meta must be unchanged, both when it was evaluated before the operation and when it was not; "
    "the acting catalog's extra_properties list must change as documented.  Parameterised calls: "
    "with the parent's Kron / fluxfrac / circular results evaluated before indexing (thorough: also "
    "everything / nothing evaluated), children taken as basic slices (numpy views: [0:3], [::-1], "
    "[1:], [::2]), int, list and boolean mask; on parent or child run kron_photometry((2.5, 8.0)) "
    "(minimum Kron radius above the measured radii), make_kron_apertures((3.0, 6.0)), "
    "circular_photometry(4.5) + fluxfrac_radius(0.9), and a named composite incl. "
    "kron_photometry((1.0, 0.1)) and ((4.0, 9.0, 2.0)); then EVERYTHING the other catalog "
    "reports - kron_photometry with the default and other parameters, make_kron_apertures, "
    "fluxfrac_radius, circular_photometry, every property, extra_properties, a fresh to_table(), "
    "meta - must equal exactly what the same catalog of an untouched identically built pair "
    "reports.  (ApertureStats has no parameterised measurement method.)"
)
RULE = (
    "Configurations are a fixed list (quick: 7 SourceCatalog + 6 ApertureStats; thorough: plus "
    "seeded random option combinations); everything else is exhaustive.  A case is one "
    "(configuration, index form, history, property) tuple, or one (configuration, index form, "
    "operation, actor, other-evaluated?) tuple for independence; it is trivial when the property "
    "value is None/NaN for every selected source."
)

SIZE = 18


# --------------------------------------------------------------------------- robust equality
def _isnan(x):
    try:
        return bool(x != x)
    except Exception:  # noqa: BLE001
        return False


_TYPES = {}


def _types():
    if not _TYPES:
        from astropy.coordinates import SkyCoord
        from astropy.units import Quantity

        from photutils.aperture import Aperture, BoundingBox
        _TYPES.update(SkyCoord=SkyCoord, Quantity=Quantity, Aperture=Aperture,
                      BoundingBox=BoundingBox)
    return _TYPES


def _num_equal(aa, bb):
    if aa.shape != bb.shape:
        return False
    ka, kb = aa.dtype.kind, bb.dtype.kind
    if ka in 'US' or kb in 'US':
        return bool(np.array_equal(aa, bb))
    if ka == 'b' or kb == 'b':
        return ka == kb and bool(np.array_equal(aa, bb))
    if ka in 'iu' and kb in 'iu':
        return bool((aa == bb).all())
    try:
        return bool(((aa == bb) | ((aa != aa) & (bb != bb))).all())
    except TypeError:
        return bool(np.array_equal(aa, bb))


def same(a, b):
    """Exact, type-aware equality (see BOUNDS)."""
    if a is None or b is None:
        return a is None and b is None
    if type(a) is np.ndarray and type(b) is np.ndarray and a.dtype != object and b.dtype != object:
        return _num_equal(a, b)
    t = _types()
    SkyCoord, Quantity, Aperture, BoundingBox = (t['SkyCoord'], t['Quantity'], t['Aperture'],
                                                 t['BoundingBox'])
    if isinstance(a, SkyCoord) or isinstance(b, SkyCoord):
        if not (isinstance(a, SkyCoord) and isinstance(b, SkyCoord)):
            return False
        if a.shape != b.shape or a.frame.name != b.frame.name:
            return False
        return (same(np.asarray(a.spherical.lon.deg), np.asarray(b.spherical.lon.deg))
                and same(np.asarray(a.spherical.lat.deg), np.asarray(b.spherical.lat.deg)))
    if isinstance(a, Quantity) or isinstance(b, Quantity):
        if not (isinstance(a, Quantity) and isinstance(b, Quantity)):
            return False
        return a.unit == b.unit and same(np.asarray(a.value), np.asarray(b.value))
    if isinstance(a, np.ma.MaskedArray) or isinstance(b, np.ma.MaskedArray):
        if not (isinstance(a, np.ma.MaskedArray) and isinstance(b, np.ma.MaskedArray)):
            return False
        if a.shape != b.shape:
            return False
        ma, mb = np.ma.getmaskarray(a), np.ma.getmaskarray(b)
        if not np.array_equal(ma, mb):
            return False
        return same(np.asarray(a.data)[~ma], np.asarray(b.data)[~mb])
    if isinstance(a, BoundingBox) or isinstance(b, BoundingBox):
        return isinstance(a, BoundingBox) and isinstance(b, BoundingBox) and a == b
    if isinstance(a, Aperture) or isinstance(b, Aperture):
        if type(a) is not type(b):
            return False
        if not same(np.asarray(a.positions), np.asarray(b.positions)):
            return False
        return all(same(getattr(a, p), getattr(b, p)) for p in a._params)
    if isinstance(a, slice) or isinstance(b, slice):
        return isinstance(a, slice) and isinstance(b, slice) and a == b
    if isinstance(a, str) or isinstance(b, str):
        return isinstance(a, str) and isinstance(b, str) and str(a) == str(b)
    a_seq = isinstance(a, (list, tuple)) or (isinstance(a, np.ndarray) and a.dtype == object)
    b_seq = isinstance(b, (list, tuple)) or (isinstance(b, np.ndarray) and b.dtype == object)
    if a_seq or b_seq:
        if isinstance(a, np.ndarray) and a.ndim == 0:
            a = a.item()
            return same(a, b)
        if isinstance(b, np.ndarray) and b.ndim == 0:
            b = b.item()
            return same(a, b)
        if not (a_seq and b_seq):
            # a numeric array against a list of numbers (e.g. a table column): compare as arrays
            try:
                return same(np.asarray(a, dtype=float), np.asarray(b, dtype=float))
            except Exception:  # noqa: BLE001
                return False
        if len(a) != len(b):
            return False
        return all(same(x, y) for x, y in zip(a, b))
    try:
        aa, bb = np.asarray(a), np.asarray(b)
    except Exception:  # noqa: BLE001
        return a == b
    if aa.dtype == object or bb.dtype == object:
        if aa.ndim == 0 or bb.ndim == 0:
            # opaque Python objects: same type and equal by their own ==
            try:
                return type(a) is type(b) and bool(a == b)
            except Exception:  # noqa: BLE001
                return False
        return aa.shape == bb.shape and all(same(x, y) for x, y in zip(aa.ravel(), bb.ravel()))
    return _num_equal(aa, bb)


def is_trivial(v):
    """True when the value carries no information (None / NaN everywhere)."""
    SkyCoord = _types()['SkyCoord']
    if v is None:
        return True
    if isinstance(v, SkyCoord):
        return False
    if isinstance(v, (list, tuple)):
        return all(is_trivial(x) for x in v)
    try:
        arr = np.asarray(getattr(v, 'value', v))
    except Exception:  # noqa: BLE001
        return False
    if arr.dtype == object:
        if arr.ndim == 0:
            return arr.item() is None
        return all(is_trivial(x) for x in arr.ravel())
    if arr.dtype.kind == 'f':
        return bool(np.all(np.isnan(arr)))
    return False


def short(v):
    s = repr(v)
    return s if len(s) < 160 else s[:157] + '...'


# --------------------------------------------------------------------------- catalogs
CENTRES = [(4, 4), (4, 12), (10, 7), (13, 13), (12, 2)]      # (y, x)
LABELSETS = {'consecutive': [1, 2, 3, 4, 5], 'gaps': [3, 7, 8, 21, 40]}


def _wcs(wide=False):
    """TAN projection; `wide`: 0.25 deg pixels, so that the pixel scale varies measurably across the
    frame (a sky aperture converted at different positions gets different pixel radii)."""
    from astropy.wcs import WCS
    w = WCS(naxis=2)
    w.wcs.ctype = ['RA---TAN', 'DEC--TAN']
    w.wcs.crpix = [6, 7]
    w.wcs.cdelt = [-0.25, 0.25] if wide else [-2e-4, 2e-4]
    w.wcs.crval = [10.0, 20.0]
    return w


def _image(cfg):
    rng = np.random.default_rng(cfg['seed'])
    yy, xx = np.mgrid[0:SIZE, 0:SIZE]
    data = rng.normal(0.0, 0.05, (SIZE, SIZE))
    n = cfg['n']
    amps = 4.0 + rng.random(5) * 4
    for k in range(n):
        cy, cx = CENTRES[k]
        data += amps[k] * np.exp(-(((yy - cy) / (1.0 + 0.3 * k)) ** 2
                                   + ((xx - cx) / 1.4) ** 2 + 0.3 * (yy - cy) * (xx - cx)) / 2.0)
    return data, rng


def make_sourcecat(cfg):
    """A fresh SourceCatalog for the configuration (deterministic)."""
    import astropy.units as u
    from photutils.segmentation import SegmentationImage, SourceCatalog

    data, rng = _image(cfg)
    n = cfg['n']
    yy, xx = np.mgrid[0:SIZE, 0:SIZE]
    labels = LABELSETS[cfg.get('labels', 'gaps')]
    # the label order is not the position order
    order = list(rng.permutation(n))
    seg = np.zeros((SIZE, SIZE), int)
    for k in range(n):
        cy, cx = CENTRES[k]
        r2 = (4.5, 6.0, 2.0, 8.0, 1.0)[k]
        seg[((yy - cy) ** 2 + (xx - cx) ** 2 <= r2) & (seg == 0)] = labels[order[k]]
    if cfg.get('nested') and n >= 2:
        # a compact source sitting on a large neighbour: its local-background annulus lies wholly
        # inside the neighbour's segment (no usable pixel: documented local background 0), and it
        # comes after the neighbour in catalog order
        two = sorted(labels[order[k]] for k in range(2))
        seg[:] = 0
        seg[3:13, 3:13] = two[0]
        seg[7:9, 7:9] = two[1]
        data = data + 0.7
    if cfg.get('thin') and n >= 2:
        # degenerate footprints: a one-row streak and a single pixel (cutouts of shape (1, W) and
        # (1, 1); Kron radius 0)
        for k, cells in ((n - 1, [(0, -1), (0, 0), (0, 1)]), (n - 2, [(0, 0)])):
            seg[seg == labels[order[k]]] = 0
            cy, cx = CENTRES[k]
            for dy, dx in cells:
                seg[int(cy) + dy, int(cx) + dx] = labels[order[k]]
        if cfg.get('dark_sky'):
            data = np.where(seg > 0, np.abs(data) + 1.0, 0.0)    # exactly zero sky: Kron radius 0
    if cfg.get('masked_source') and n >= 1:
        k = n - 1
        data = data.copy()
        data[seg == labels[order[k]]] = np.nan
    error = np.full(data.shape, 0.1) + 0.01 * xx if cfg.get('error') else None
    bkg = 0.2 + 0.01 * yy + 0.003 * xx if cfg.get('bkg') else None
    mask = None
    if cfg.get('mask'):
        mask = np.zeros(data.shape, bool)
        mask[4, 5] = True
        mask[10, :] = True
    unit = u.Jy if cfg.get('unit') else None

    def q(a):
        return a if (a is None or unit is None) else a * unit

    segm = SegmentationImage(seg)
    wcs = _wcs() if cfg.get('wcs') else None
    detcat = None
    if cfg.get('det'):
        det_data = data[::-1, ::-1].copy() * 0.5 + np.where(seg > 0, 1.0, 0.0)
        det_data = np.nan_to_num(det_data, nan=1.0)
        detcat = SourceCatalog(q(det_data), segm, wcs=wcs, apermask_method=cfg.get('apermask', 'correct'))
    cat = SourceCatalog(q(data), segm, error=q(error), background=q(bkg), mask=mask, wcs=wcs,
                        localbkg_width=cfg.get('localbkg', 0),
                        kron_params=tuple(cfg.get('kron_params', (2.5, 1.4, 0.0))),
                        apermask_method=cfg.get('apermask', 'correct'), detection_cat=detcat)
    if cfg.get('extras'):
        cat.add_extra_property('ex_arr', np.arange(n) * 1.5 + 0.25)
        cat.add_extra_property('ex_q', (np.arange(n) + 1.0) * u.m)
        cat.add_extra_property('ex_2d', np.arange(2 * n).reshape(n, 2) * 1.0)
        cat.add_extra_property('ex_list', [f's{i}' for i in range(n)])
        cat.circular_photometry(2.0, name='circ')
        cat.kron_photometry((2.0, 1.0), name='kr2')
        cat.fluxfrac_radius(0.5, name='r50')
    return cat


def make_aperstats(cfg):
    import astropy.units as u
    from astropy.coordinates import SkyCoord
    from astropy.stats import SigmaClip

    from photutils.aperture import (ApertureStats, CircularAnnulus, CircularAperture,
                                    EllipticalAperture, RectangularAperture, SkyCircularAperture)

    data, rng = _image(cfg)
    n = cfg['n']
    pos = [(CENTRES[k][1] + 0.3 * k, CENTRES[k][0] - 0.2 * k) for k in range(n)]
    if cfg.get('offimage') and n >= 2:
        pos[1] = (-30.0, 5.0)
    mask = None
    if cfg.get('mask'):
        mask = np.zeros(data.shape, bool)
        mask[4, 5] = True
        mask[10, :] = True
        if cfg.get('masked_source'):
            yy, xx = np.mgrid[0:SIZE, 0:SIZE]
            mask |= (yy - pos[n - 1][1]) ** 2 + (xx - pos[n - 1][0]) ** 2 < 36
    kind = cfg.get('aper', 'circ')
    wcs = _wcs(wide=(kind == 'sky')) if (cfg.get('wcs') or kind == 'sky') else None
    if kind == 'circ':
        aper = CircularAperture(pos, 2.6)
    elif kind == 'ell':
        aper = EllipticalAperture(pos, 3.1, 1.7, theta=0.6)
    elif kind == 'ann':
        aper = CircularAnnulus(pos, 1.2, 3.3)
    elif kind == 'rect':
        aper = RectangularAperture(pos, 4.2, 2.9, theta=0.3)
    else:
        sky = wcs.pixel_to_world([p[0] for p in pos], [p[1] for p in pos])
        aper = SkyCircularAperture(SkyCoord(sky), 0.65 * u.deg)
    yy, xx = np.mgrid[0:SIZE, 0:SIZE]
    error = np.full(data.shape, 0.1) + 0.01 * xx if cfg.get('error') else None
    unit = u.Jy if cfg.get('unit') else None

    def q(a):
        return a if (a is None or unit is None) else a * unit

    local_bkg = None
    if cfg.get('local_bkg'):
        local_bkg = q(0.05 * (np.arange(n) + 1.0))
    sigclip = SigmaClip(sigma=2.5, maxiters=3) if cfg.get('sigclip') else None
    return ApertureStats(q(data), aper, error=q(error), mask=mask, wcs=wcs, sigma_clip=sigclip,
                         sum_method=cfg.get('sum_method', 'exact'), subpixels=3, local_bkg=local_bkg)


def make(cfg):
    return make_sourcecat(cfg) if cfg['cls'] == 'SC' else make_aperstats(cfg)


def prop_names(cfg, cat):
    if cfg['cls'] == 'SC':
        return sorted(set(cat.properties) | set(cat.extra_properties))
    return sorted(set(cat.properties) | {'id', 'ids'})


# --------------------------------------------------------------------------- index forms
def index_forms(n, labels, rng, full=True):
    forms = []
    for i in range(-n, n):
        forms.append({'kind': 'int', 'v': i})
    for i in sorted({0, n - 1, -1}):
        forms.append({'kind': 'npint', 'v': i})
    slices = [(None, None, None), (0, 1, None), (None, None, -1), (None, None, 2), (n - 1, None, None)]
    if n > 1:
        slices += [(1, None, None), (None, -1, None), (-2, None, None), (None, None, -2), (1, n, 2)]
    for s in slices:
        if len(range(n)[slice(*s)]) > 0:
            forms.append({'kind': 'slice', 'v': list(s)})
    lists = [[0], [n - 1], [-1], list(range(n)), list(range(n))[::-1], [0, 0]]
    if n > 1:
        lists += [[n - 1, 0], [-1, 0, 1], [1], [1, 1, 0]]
    if n > 2:
        lists += [[int(v) for v in rng.permutation(n)], [2, 0]]
    seen = set()
    for lst in lists:
        if tuple(lst) in seen:
            continue
        seen.add(tuple(lst))
        forms.append({'kind': 'list', 'v': lst})
        if full or len(seen) % 2 == 1:
            forms.append({'kind': 'array', 'v': lst})
    bools = [[True] * n, [i == 0 for i in range(n)], [i == n - 1 for i in range(n)],
             [i % 2 == 0 for i in range(n)]]
    if n > 1:
        bools += [[i % 2 == 1 for i in range(n)], [i != 0 for i in range(n)]]
    if n > 2:
        rb = [bool(v) for v in rng.random(n) < 0.5]
        if any(rb):
            bools.append(rb)
    seen = set()
    for bl in bools:
        if tuple(bl) in seen:
            continue
        seen.add(tuple(bl))
        forms.append({'kind': 'boolarray', 'v': [int(b) for b in bl]})
        if full or len(seen) % 2 == 0:
            forms.append({'kind': 'boollist', 'v': [int(b) for b in bl]})
    for lab in labels:
        forms.append({'kind': 'get_one', 'v': int(lab)})
        forms.append({'kind': 'get_many', 'v': [int(lab)], 'as': 'list'})
    forms.append({'kind': 'get_many', 'v': int(labels[-1]), 'as': 'scalar'})
    forms.append({'kind': 'get_many', 'v': [int(v) for v in labels], 'as': 'array'})
    if n > 1:
        perm = [int(labels[i]) for i in rng.permutation(n)]
        forms.append({'kind': 'get_many', 'v': perm, 'as': 'list'})
        forms.append({'kind': 'get_many', 'v': perm[::-1][:max(1, n - 1)], 'as': 'tuple'})
        forms.append({'kind': 'get_many', 'v': [int(labels[-1]), int(labels[0])], 'as': 'array'})
        # chained indexing: a reordered / thinned child indexed again (rows no longer label-sorted)
        firsts = [{'kind': 'list', 'v': list(range(n))[::-1]}, {'kind': 'slice', 'v': [None, None, -1]},
                  {'kind': 'array', 'v': [int(v) for v in np.roll(np.arange(n), 1)]},
                  {'kind': 'get_many', 'v': [int(labels[i]) for i in rng.permutation(n)], 'as': 'list'}]
        if n > 2:
            firsts.append({'kind': 'boolarray', 'v': [int(i != 1) for i in range(n)]})
        for j, first in enumerate(firsts if full else firsts[:3]):
            _, p1 = positions(first, n, labels)
            sub = [int(labels[i]) for i in p1]
            seconds = [{'kind': 'get_one', 'v': sub[0]}, {'kind': 'get_one', 'v': sub[-1]},
                       {'kind': 'get_many', 'v': sorted(sub), 'as': 'list'},
                       {'kind': 'get_many', 'v': sub[::-1], 'as': 'array'},
                       {'kind': 'int', 'v': -1}, {'kind': 'slice', 'v': [1, None, None]},
                       {'kind': 'list', 'v': [len(sub) - 1, 0]}]
            for k, second in enumerate(seconds):
                if full or (j + k) % 2 == 0:
                    forms.append({'kind': 'chain', 'v': [first, second]})
    return forms


def apply_index(cat, cfg, form):
    k, v = form['kind'], form['v']
    if k == 'chain':
        for sub in v:
            cat = apply_index(cat, cfg, sub)
        return cat
    if k == 'int':
        return cat[int(v)]
    if k == 'npint':
        return cat[np.int64(v)]
    if k == 'slice':
        return cat[slice(*v)]
    if k == 'list':
        return cat[list(v)]
    if k == 'array':
        return cat[np.array(v, dtype=int)]
    if k == 'boollist':
        return cat[[bool(b) for b in v]]
    if k == 'boolarray':
        return cat[np.array(v, dtype=bool)]
    one = cat.get_label if cfg['cls'] == 'SC' else cat.get_id
    many = cat.get_labels if cfg['cls'] == 'SC' else cat.get_ids
    if k == 'get_one':
        return one(int(v))
    how = form.get('as')
    if how == 'scalar':
        return many(int(v))
    if how == 'tuple':
        return many(tuple(v))
    if how == 'array':
        return many(np.array(v))
    return many(list(v))


def positions(form, n, labels):
    """('scalar', i) or ('vector', [i, ...]): the rows an index form selects, by definition."""
    k, v = form['kind'], form['v']
    labels = [int(x) for x in labels]
    if k == 'chain':
        rows = list(range(n))
        kind = 'vector'
        for sub in v:
            sub_labels = [labels[i] for i in rows]
            kind, p = positions(sub, len(rows), sub_labels)
            if kind == 'scalar':
                return 'scalar', rows[p]
            rows = [rows[i] for i in p]
        return kind, rows
    if k in ('int', 'npint'):
        return 'scalar', int(v) % n
    if k == 'slice':
        return 'vector', list(range(n)[slice(*v)])
    if k in ('list', 'array'):
        return 'vector', [int(i) % n for i in v]
    if k in ('boollist', 'boolarray'):
        return 'vector', [i for i, b in enumerate(v) if b]
    if k == 'get_one':
        return 'scalar', labels.index(int(v))
    if form.get('as') == 'scalar':
        return 'scalar', labels.index(int(v))
    return 'vector', [labels.index(int(x)) for x in v]


def take(ref, pos):
    """ref[idx] for a per-source sequence `ref` (list / array / Quantity / SkyCoord)."""
    kind, p = pos
    if isinstance(ref, (list, tuple)):
        return ref[p] if kind == 'scalar' else [ref[i] for i in p]
    if kind == 'scalar':
        return ref[p]
    return ref[np.array(p, dtype=int)]


def expected_value(cfg, name, ref, pos, n):
    kind, p = pos
    if name in ('labels', 'ids'):
        # documented: always an iterable ndarray
        return np.atleast_1d(take(ref, pos))
    if cfg['cls'] == 'AS' and name == 'isscalar':
        return kind == 'scalar'
    if cfg['cls'] == 'AS' and name == 'n_apertures':
        return 1 if kind == 'scalar' else len(p)
    return take(ref, pos)


def read_all(cat, names, order=None):
    out = {}
    for name in (order if order is not None else names):
        try:
            out[name] = getattr(cat, name)
        except Exception as exc:  # noqa: BLE001
            out[name] = ('EXC', repr(exc)[:200])
    return out


def _is_exc(v):
    return isinstance(v, tuple) and len(v) == 2 and isinstance(v[0], str) and v[0] == 'EXC'


# --------------------------------------------------------------------------- commutation
def _is_lazy(cat, name):
    from astropy.utils import lazyproperty
    return isinstance(getattr(type(cat), name, None), lazyproperty)


def prepare_parent(cfg, hist, names):
    """A parent catalog in the cache state the history asks for."""
    parent = make(cfg)
    kind = hist['kind']
    if kind in ('before', 'recompute'):
        read_all(parent, names)
    elif kind == 'mixed':
        read_all(parent, names, order=hist['pre'])
    return parent


def read_child(child, hist, names):
    kind = hist['kind']
    if kind == 'recompute':
        # every property was cached before indexing; drop one property at a time from the child's
        # cache so that it is recomputed from the *sliced* (private) intermediates
        got = {}
        for name in names:
            if _is_lazy(child, name):
                child.__dict__.pop(name, None)
            try:
                got[name] = getattr(child, name)
            except Exception as exc:  # noqa: BLE001
                got[name] = ('EXC', repr(exc)[:200])
        return got
    if kind == 'mixed':
        return read_all(child, names, order=hist['post'])
    return read_all(child, names)


def run_history(cfg, forms, hist, names):
    """Dedicated parent; index with each form in `forms` in turn (reading every property of each
    child); return (values of the last child, parent values re-read afterwards)."""
    parent = prepare_parent(cfg, hist, names)
    got = None
    for form in forms:
        child = apply_index(parent, cfg, form)
        got = read_child(child, hist, names)
    again = read_all(parent, names)
    return got, again


def fkey(cls, name, what):
    return f'{cls}/{name}/{what}'


QUAD = ('centroid_quad', 'cutout_centroid_quad', 'sky_centroid_quad', 'xcentroid_quad',
        'ycentroid_quad')


def classify_exception(cls, name, msg, hist, pos):
    if cls == 'SC' and name in QUAD and 'boolean index did not match' in msg and pos[0] == 'scalar':
        # one defect: the isophotal-centroid fallback of cutout_centroid_quad indexes the (2,)
        # cutout_centroid of a scalar catalog with a length-1 boolean mask
        return 'SC/centroid_quad/scalar-catalog-fallback-indexerror'
    return fkey(cls, name, f'exception/{hist["kind"]}/{pos[0]}')


def compare_child(cfg, form, hist, names, ref, labels, got):
    """[(key, what, prop)] for every property of the child that differs from cat.p[idx]."""
    cls, n = cfg['cls'], cfg['n']
    pos = positions(form, n, labels)
    out = []
    for name in names:
        if _is_exc(ref[name]):
            continue
        exp = expected_value(cfg, name, ref[name], pos, n)
        g = got[name]
        if _is_exc(g):
            out.append((classify_exception(cls, name, g[1], hist, pos),
                        f'{cls}[{form}].{name} raised {g[1]} (history {hist["kind"]}, n={n})', name))
        elif not same(g, exp):
            out.append((fkey(cls, name, f'mismatch/{hist["kind"]}/{pos[0]}'),
                        f'{cls}[{form}].{name} = {short(g)} but cat.{name}[idx] = {short(exp)} '
                        f'(history {hist["kind"]}, n={n})', name))
    return out


def check_commutation(ctx, cfg, rec, rng, nmixed):
    cls = cfg['cls']
    n = cfg['n']
    base = make(cfg)
    names = prop_names(cfg, base)
    ref = read_all(base, names)
    labels = [int(v) for v in (base.labels if cls == 'SC' else base.ids)]
    cfgid = hashlib.md5(repr(sorted(cfg.items())).encode()).hexdigest()[:10]
    for name in names:
        if _is_exc(ref[name]):
            rec(fkey(cls, name, 'exception-on-parent'), f'{cls}.{name} raised {ref[name][1]} on the '
                f'unsliced catalog {cfg}', {'kind': 'commute', 'cfg': cfg, 'forms': None, 'hist': None,
                                            'prop': name})
    forms = index_forms(n, labels, rng, full=ctx.thorough or n < 4)
    hists = [{'kind': 'after'}, {'kind': 'before'}, {'kind': 'recompute'}]
    for _ in range(nmixed):
        sub = [names[i] for i in rng.permutation(len(names))[:int(rng.integers(1, len(names)))]]
        post = [names[i] for i in rng.permutation(len(names))]
        hists.append({'kind': 'mixed', 'pre': sub, 'post': post})
    trivial = {}
    for hist in hists:
        hid = hist['kind'] + hashlib.md5(repr(hist).encode()).hexdigest()[:8]
        # one parent per history serves every index form: indexing and using a child must leave the
        # parent (and therefore the next child) unaffected; any failure is re-run on a dedicated
        # parent to tell the two situations apart
        parent = prepare_parent(cfg, hist, names)
        used = []
        for form in forms:
            pos = positions(form, n, labels)
            fid = repr(form)
            contract = f'{cls}: cat[idx].p == cat.p[idx] ({hist["kind"]})'
            case0 = {'kind': 'commute', 'cfg': cfg, 'forms': [form], 'hist': hist}
            try:
                child = apply_index(parent, cfg, form)
                got = read_child(child, hist, names)
            except Exception as exc:  # noqa: BLE001
                ctx.case((cfgid, repr(form), hist['kind'], 'index'), contract=f'{cls}: indexing')
                rec(fkey(cls, '__getitem__', f'exception/{form["kind"]}'),
                    f'{cls}: index form {form} raised {exc!r} (history {hist["kind"]}, n={n})',
                    dict(case0, prop=None))
                continue
            for name in names:
                tkey = (name, repr(pos))
                if tkey not in trivial:
                    trivial[tkey] = _is_exc(ref[name]) or is_trivial(
                        expected_value(cfg, name, ref[name], pos, n))
                ctx.case((cfgid, fid, hid, name), nontrivial=not trivial[tkey], contract=contract,
                         sample=None if len(ctx.samples) >= 6 else
                         {'cls': cls, 'n': n, 'form': form, 'history': hist['kind'], 'prop': name})
            bad = compare_child(cfg, form, hist, names, ref, labels, got)
            if bad:
                try:
                    got1, _ = run_history(cfg, [form], hist, names)
                    bad1 = compare_child(cfg, form, hist, names, ref, labels, got1)
                except Exception as exc:  # noqa: BLE001
                    bad1 = [(fkey(cls, '__getitem__', f'exception/{form["kind"]}'), repr(exc), None)]
                iso = {b[2] for b in bad1}
                for (key, what, name) in bad1:
                    rec(key, what, dict(case0, prop=name))
                for (key, what, name) in bad:
                    if name not in iso:
                        rec(fkey(cls, name, 'depends-on-sibling-children'),
                            what + f' -- only after the parent had been indexed with {used} before',
                            {'kind': 'commute', 'cfg': cfg, 'forms': used + [form], 'hist': hist,
                             'prop': name})
            used.append(form)
        again = read_all(parent, names)
        ctx.case((cfgid, hid, 'parent'), contract=f'{cls}: parent unchanged by its children')
        for name in names:
            if _is_exc(ref[name]):
                continue
            a = again[name]
            if _is_exc(a) or not same(a, ref[name]):
                rec(fkey(cls, name, f'parent-changed/{hist["kind"]}'),
                    f'{cls}.{name} of the parent reads {short(a)} after it was indexed with every form '
                    f'and the children were used; reference {short(ref[name])} (n={n})',
                    {'kind': 'commute', 'cfg': cfg, 'forms': forms, 'hist': hist, 'prop': name,
                     'parent': True})
    return len(forms), len(names)


# --------------------------------------------------------------------------- independence
def _op_list():
    def val(c, n, off):
        return (off + 0.5) if c.isscalar else (np.arange(n) + off + 0.5)

    return [
        ('add', lambda c, n: c.add_extra_property('zz_new', val(c, n, 0)),
         lambda old: old + ['zz_new']),
        ('add-overwrite', lambda c, n: c.add_extra_property('ex_arr', val(c, n, 100), overwrite=True),
         lambda old: old),
        ('rename', lambda c, n: c.rename_extra_property('ex_q', 'ex_q_renamed'),
         lambda old: [('ex_q_renamed' if x == 'ex_q' else x) for x in old]),
        ('remove', lambda c, n: c.remove_extra_property('ex_2d'),
         lambda old: [x for x in old if x != 'ex_2d']),
        ('remove-many', lambda c, n: c.remove_extra_properties(['ex_arr', 'ex_list']),
         lambda old: [x for x in old if x not in ('ex_arr', 'ex_list')]),
        ('remove-all', lambda c, n: c.remove_extra_properties(c.extra_properties),
         lambda old: []),
        ('circ-new', lambda c, n: c.circular_photometry(3.0, name='circ3'),
         lambda old: old + ['circ3_flux', 'circ3_fluxerr']),
        ('circ-overwrite', lambda c, n: c.circular_photometry(3.0, name='circ', overwrite=True),
         lambda old: old),
        ('kron-new', lambda c, n: c.kron_photometry((3.0, 1.0), name='kr3'),
         lambda old: old + ['kr3_flux', 'kr3_fluxerr']),
        ('kron-overwrite', lambda c, n: c.kron_photometry((3.0, 1.0), name='kr2', overwrite=True),
         lambda old: old),
        ('fluxfrac-new', lambda c, n: c.fluxfrac_radius(0.8, name='r80'),
         lambda old: old + ['r80']),
        ('fluxfrac-overwrite', lambda c, n: c.fluxfrac_radius(0.8, name='r50', overwrite=True),
         lambda old: old),
        ('add-then-remove', lambda c, n: (c.add_extra_property('tmp', val(c, n, 7)),
                                         c.remove_extra_property('tmp')),
         lambda old: old),
    ]


def snapshot(c):
    names = list(c.extra_properties)
    vals = {nm: (copy.deepcopy(getattr(c, nm)) if hasattr(c, nm) else 'MISSING-ATTRIBUTE')
            for nm in names}
    cols = list(c.default_columns) + [nm for nm in names if hasattr(c, nm)]
    tbl = c.to_table(columns=cols)
    tcols = {}
    for col in tbl.colnames:
        column = tbl[col]
        tcols[col] = copy.deepcopy(column if hasattr(column, 'frame') else
                                   (column.value if hasattr(column, 'unit') and column.unit is not None
                                    and hasattr(column, 'value') else np.asarray(column)))
    return {'extra_properties': names, 'extra_values': vals, 'table_columns': list(tbl.colnames),
            'table': tcols, 'table_meta': copy.deepcopy(dict(tbl.meta)),
            'meta': copy.deepcopy(dict(c.meta))}


def snap_diff(s1, s2):
    bad = []
    for k in ('extra_properties', 'table_columns'):
        if s1[k] != s2[k]:
            bad.append(k)
    for k in ('extra_values', 'table'):
        if sorted(s1[k]) != sorted(s2[k]):
            bad.append(k + ':names')
        else:
            for nm in s1[k]:
                if not same(s1[k][nm], s2[k][nm]):
                    bad.append(f'{k}:{nm}')
    for k in ('meta', 'table_meta'):
        if repr(sorted(s1[k].items())) != repr(sorted(s2[k].items())):
            bad.append(k)
    return bad


_PREPARED = {}


def _prepared(cfg):
    key = repr(sorted(cfg.items()))
    if key not in _PREPARED:
        _PREPARED.clear()
        _PREPARED[key] = make(cfg)
    return _PREPARED[key]


def _strip_date(snap):
    out = dict(snap)
    for k in ('meta', 'table_meta'):
        out[k] = {kk: vv for kk, vv in snap[k].items() if kk != 'date'}
    return out


def run_independence(cfg, form, opname, actor, pre_eval, twin_cache=None):
    """Return (differences seen on the other catalog, actor list ok?, details)."""
    ops = {o[0]: o for o in _op_list()}
    _, op, newlist = ops[opname]

    def pair():
        parent = _prepared(cfg).copy()      # public deep copy of an identically built catalog
        child = apply_index(parent, cfg, form)
        return parent, child

    # twin pair: same history, no operation -> what the other catalog reports
    tkey = (repr(form), actor)
    if twin_cache is not None and tkey in twin_cache:
        twin_other = twin_cache[tkey]
    else:
        tp, tc = pair()
        twin_other = snapshot(tc if actor == 'parent' else tp)
        if twin_cache is not None:
            twin_cache[tkey] = twin_other
    parent, child = pair()
    act, other = (parent, child) if actor == 'parent' else (child, parent)
    if pre_eval:
        before = snapshot(other)
    old = list(act.extra_properties)
    nact = 1 if act.isscalar else act.nlabels
    op(act, nact)
    after = snapshot(other)
    bad = snap_diff(_strip_date(twin_other), _strip_date(after))
    if pre_eval:
        bad += [b for b in snap_diff(before, after) if b not in bad]
    list_ok = list(act.extra_properties) == newlist(old)
    return bad, list_ok, {'actor_list': list(act.extra_properties), 'expected_list': newlist(old)}


def check_independence(ctx, cfg, rec, rng):
    n = cfg['n']
    base = make(cfg)
    labels = [int(v) for v in base.labels]
    cfgid = hashlib.md5(repr(sorted(cfg.items())).encode()).hexdigest()[:10]
    forms = [{'kind': 'int', 'v': 0}, {'kind': 'slice', 'v': [None, None, None]},
             {'kind': 'boolarray', 'v': [int(i % 2 == 0) for i in range(n)]},
             {'kind': 'get_one', 'v': labels[-1]}]
    if n > 1:
        forms += [{'kind': 'slice', 'v': [1, None, None]},
                  {'kind': 'list', 'v': [n - 1, 0]},
                  {'kind': 'get_many', 'v': labels[::-1], 'as': 'list'},
                  # every label in catalog order: the selection is the whole catalog, the result
                  # must still be an independent catalog
                  {'kind': 'get_many', 'v': list(labels), 'as': 'array'}]
    twin_cache = {}
    if not ctx.thorough:
        forms = forms[:1] + forms[4:]
    for form in forms:
        for (opname, _, _) in _op_list():
            for actor in ('parent', 'child'):
                for pre_eval in (False, True):
                    ctx.case((cfgid, repr(form), opname, actor, pre_eval),
                             contract='SC: operation on one catalog leaves the other unchanged',
                             sample={'n': n, 'form': form, 'op': opname, 'actor': actor})
                    case = {'kind': 'indep', 'cfg': cfg, 'form': form, 'op': opname, 'actor': actor,
                            'pre_eval': pre_eval}
                    try:
                        bad, list_ok, det = run_independence(cfg, form, opname, actor, pre_eval,
                                                             twin_cache)
                    except Exception as exc:  # noqa: BLE001
                        rec(f'SC/independence/{opname}/exception',
                            f'{opname} on the {actor} of cat[{form}] raised {exc!r} (n={n})', case)
                        continue
                    if bad:
                        other = 'child' if actor == 'parent' else 'parent'
                        rec(f'SC/independence/{opname}-on-{actor}/{bad[0].split(":")[0]}',
                            f'{opname} on the {actor} of cat[{form}] changed what the {other} reports: '
                            f'{bad} (n={n})', case)
                    if not list_ok:
                        rec(f'SC/extra-list/{opname}',
                            f'{opname} on the {actor} (cat[{form}]): extra_properties = '
                            f'{det["actor_list"]}, documented effect gives {det["expected_list"]}', case)


# ------------------------------------------------- independence under parameterised method calls
KRON_PROPS = ('kron_radius', 'kron_flux', 'kron_fluxerr', 'kron_aperture')


def _param_ops():
    """Calls with NON-default arguments (large minimum Kron radius, other scale, minimum circular
    radius, other aperture radius / flux fraction); none of them may change another catalog."""
    return {
        'kron-large-min-radius': lambda c: c.kron_photometry((2.5, 8.0)),
        'kron-apertures-large-min': lambda c: c.make_kron_apertures((3.0, 6.0)),
        'circ-fluxfrac-nondefault': lambda c: (c.circular_photometry(4.5), c.fluxfrac_radius(0.9),
                                               c.make_circular_apertures(1.5)),
        'composite-named': lambda c: (c.kron_photometry((2.5, 8.0), name='kbig'),
                                      c.kron_photometry((1.0, 0.1), name='ksmall'),
                                      c.make_kron_apertures((3.0, 6.0)),
                                      c.circular_photometry(4.5, name='c45'),
                                      c.fluxfrac_radius(0.9, name='r90'),
                                      c.kron_photometry((4.0, 9.0, 2.0))),
    }


def _try(fn):
    try:
        return fn()
    except Exception as exc:  # noqa: BLE001
        return ('EXC', repr(exc)[:200])


def observe_everything(c):
    """Ordered [(item, value)] of everything the catalog reports, including values that are
    (re)computed now by the parameterised methods and a fresh to_table."""
    out = []
    kp = tuple(c.kron_params)
    out.append(('kron_photometry(default kron_params)', _try(lambda: c.kron_photometry(kp))))
    out.append(('make_kron_apertures()', _try(lambda: c.make_kron_apertures())))
    out.append(('kron_photometry((2.0, 1.0))', _try(lambda: c.kron_photometry((2.0, 1.0)))))
    out.append(('make_kron_apertures((2.0, 1.0))', _try(lambda: c.make_kron_apertures((2.0, 1.0)))))
    out.append(('fluxfrac_radius(0.5)', _try(lambda: c.fluxfrac_radius(0.5))))
    out.append(('fluxfrac_radius(0.3)', _try(lambda: c.fluxfrac_radius(0.3))))
    out.append(('circular_photometry(2.0)', _try(lambda: c.circular_photometry(2.0))))
    out.append(('make_circular_apertures(2.0)', _try(lambda: c.make_circular_apertures(2.0))))
    names = sorted(set(c.properties) | set(c.extra_properties))
    vals = read_all(c, names)
    for nm in KRON_PROPS:
        out.append((f'prop:{nm}', vals[nm]))
    for nm in names:
        if nm not in KRON_PROPS:
            out.append((f'prop:{nm}', vals[nm]))
    out.append(('extra_properties', list(c.extra_properties)))
    tbl = _try(lambda: c.to_table())
    if _is_exc(tbl):
        out.append(('to_table()', tbl))
    else:
        out.append(('to_table().colnames', list(tbl.colnames)))
        for col in tbl.colnames:
            column = tbl[col]
            out.append((f'to_table():{col}', column if hasattr(column, 'frame') else
                        (column.value if getattr(column, 'unit', None) is not None
                         and hasattr(column, 'value') else np.asarray(column))))
    out.append(('meta', repr(sorted((k, v) for k, v in c.meta.items() if k != 'date'))))
    return out


def _pair(cfg, form, pre):
    parent = make(cfg)
    if pre == 'kron':
        read_all(parent, list(KRON_PROPS))
        parent.fluxfrac_radius(0.5)
        parent.circular_photometry(2.0)
    elif pre == 'all':
        read_all(parent, sorted(set(parent.properties) | set(parent.extra_properties)))
    child = apply_index(parent, cfg, form)
    return parent, child


def run_param_independence(cfg, form, pre, opname, actor, ref_cache=None):
    """Differences between what the non-acting catalog reports after `opname` was run on the other
    one, and what the same catalog of an untouched, identically built pair reports."""
    rkey = (repr(form), pre, actor)
    if ref_cache is not None and rkey in ref_cache:
        ref = ref_cache[rkey]
    else:
        tp, tc = _pair(cfg, form, pre)
        ref = observe_everything(tc if actor == 'parent' else tp)
        if ref_cache is not None:
            ref_cache[rkey] = ref
    parent, child = _pair(cfg, form, pre)
    act, other = (parent, child) if actor == 'parent' else (child, parent)
    _param_ops()[opname](act)
    got = observe_everything(other)
    bad = []
    if [k for k, _ in got] != [k for k, _ in ref]:
        bad.append(('items', [k for k, _ in got], [k for k, _ in ref]))
    else:
        for (k, g), (_, r) in zip(got, ref):
            if _is_exc(g) != _is_exc(r) or (not _is_exc(g) and not same(g, r)):
                bad.append((k, g, r))
    return bad


def param_forms(n):
    forms = [{'kind': 'slice', 'v': [0, min(3, n), None]}, {'kind': 'slice', 'v': [None, None, -1]},
             {'kind': 'int', 'v': 0}]
    if n > 1:
        forms += [{'kind': 'list', 'v': [n - 1, 0]}, {'kind': 'slice', 'v': [1, None, None]},
                  {'kind': 'boolarray', 'v': [int(i % 2 == 0) for i in range(n)]},
                  {'kind': 'slice', 'v': [None, None, 2]}, {'kind': 'int', 'v': -1}]
    return forms


def check_param_independence(ctx, cfg, rec):
    n = cfg['n']
    cfgid = hashlib.md5(repr(sorted(cfg.items())).encode()).hexdigest()[:10]
    forms = param_forms(n)
    pres = ('kron', 'all', 'none') if ctx.thorough else ('kron',)
    ops = list(_param_ops())
    if not ctx.thorough:
        forms = forms[:4]
        ops = ['kron-large-min-radius', 'composite-named']
    ref_cache = {}
    for pre in pres:
        for form in forms:
            for opname in ops:
                for actor in ('parent', 'child'):
                    other = 'child' if actor == 'parent' else 'parent'
                    ctx.case((cfgid, 'param', repr(form), pre, opname, actor),
                             contract='SC: non-default method call on one catalog leaves everything '
                                      'the other reports unchanged',
                             sample={'n': n, 'form': form, 'pre': pre, 'op': opname, 'actor': actor})
                    case = {'kind': 'param-indep', 'cfg': cfg, 'form': form, 'pre': pre,
                            'op': opname, 'actor': actor}
                    try:
                        bad = run_param_independence(cfg, form, pre, opname, actor, ref_cache)
                    except Exception as exc:  # noqa: BLE001
                        rec(f'SC/independence/nondefault-call/{opname}/exception',
                            f'{opname} on the {actor} of cat[{form}] raised {exc!r} (n={n})', case)
                        continue
                    if bad:
                        item = bad[0][0].split('(')[0].split(':')[0]
                        rec(f'SC/independence/nondefault-call-changes-other/{item}',
                            f'{opname} on the {actor} of cat[{form}] (parent pre-evaluated: {pre}) '
                            f'changed what the {other} reports afterwards: '
                            f'{[b[0] for b in bad][:8]}; first: {bad[0][0]} = {short(bad[0][1])}, '
                            f'untouched twin: {short(bad[0][2])} (n={n})', case)


# --------------------------------------------------------------------------- configurations
def configs(ctx):
    sc = [
        {'cls': 'SC', 'n': 5, 'seed': 11, 'wcs': True, 'error': True, 'bkg': True, 'extras': True,
         'labels': 'gaps'},
        {'cls': 'SC', 'n': 3, 'seed': 12, 'wcs': False, 'error': False, 'bkg': False, 'extras': True,
         'labels': 'consecutive', 'masked_source': True, 'apermask': 'mask'},
        {'cls': 'SC', 'n': 1, 'seed': 13, 'wcs': True, 'error': True, 'bkg': True, 'extras': True,
         'unit': True},
        {'cls': 'SC', 'n': 2, 'seed': 14, 'wcs': True, 'error': True, 'bkg': False, 'extras': True,
         'det': True, 'unit': True, 'localbkg': 3},
        {'cls': 'SC', 'n': 4, 'seed': 15, 'wcs': False, 'error': True, 'bkg': True, 'extras': True,
         'localbkg': 3, 'mask': True, 'apermask': 'none', 'masked_source': True},
        {'cls': 'SC', 'n': 2, 'seed': 16, 'wcs': False, 'error': False, 'bkg': True, 'extras': False,
         'labels': 'consecutive'},
        {'cls': 'SC', 'n': 1, 'seed': 17, 'wcs': False, 'error': False, 'bkg': False, 'extras': True,
         'masked_source': True},
        {'cls': 'SC', 'n': 3, 'seed': 18, 'wcs': False, 'error': True, 'bkg': False, 'extras': True,
         'labels': 'consecutive', 'thin': True},
        {'cls': 'SC', 'n': 2, 'seed': 19, 'wcs': False, 'error': False, 'bkg': False, 'extras': False,
         'labels': 'consecutive', 'thin': True, 'dark_sky': True},
        {'cls': 'SC', 'n': 2, 'seed': 21, 'wcs': False, 'error': True, 'bkg': False, 'extras': False,
         'labels': 'gaps', 'localbkg': 3, 'nested': True},
        # a minimum circular radius larger than every source: the Kron radius is 0 for all of them
        {'cls': 'SC', 'n': 3, 'seed': 20, 'wcs': False, 'error': True, 'bkg': False, 'extras': False,
         'labels': 'gaps', 'kron_params': [2.5, 1.4, 50.0]},
    ]
    ap = [
        {'cls': 'AS', 'n': 5, 'seed': 21, 'aper': 'circ', 'error': True, 'wcs': True,
         'local_bkg': True},
        {'cls': 'AS', 'n': 3, 'seed': 22, 'aper': 'ell', 'error': False, 'mask': True,
         'offimage': True, 'sum_method': 'center'},
        {'cls': 'AS', 'n': 1, 'seed': 23, 'aper': 'ann', 'error': True, 'unit': True,
         'local_bkg': True},
        {'cls': 'AS', 'n': 2, 'seed': 24, 'aper': 'sky', 'error': True, 'sigclip': True,
         'sum_method': 'subpixel', 'unit': True, 'local_bkg': True},
        # sky apertures with the exact method on the wide-field WCS: the pixel radius depends on
        # where the sky aperture is converted, and exact weights see a 0.05 % change of it
        {'cls': 'AS', 'n': 3, 'seed': 26, 'aper': 'sky', 'error': True},
        {'cls': 'AS', 'n': 4, 'seed': 25, 'aper': 'rect', 'error': True, 'mask': True,
         'masked_source': True, 'offimage': True, 'sigclip': True, 'local_bkg': True},
        {'cls': 'AS', 'n': 1, 'seed': 26, 'aper': 'circ', 'error': False, 'mask': True,
         'masked_source': True},
    ]
    extra = []
    if ctx.thorough:
        rng = ctx.rng
        for i in range(10):
            extra.append({'cls': 'SC', 'n': int(rng.integers(1, 6)), 'seed': 100 + i,
                          'wcs': bool(rng.random() < 0.5), 'error': bool(rng.random() < 0.5),
                          'bkg': bool(rng.random() < 0.5), 'extras': True,
                          'unit': bool(rng.random() < 0.3), 'det': bool(rng.random() < 0.3),
                          'localbkg': int(rng.choice([0, 3])), 'mask': bool(rng.random() < 0.3),
                          'apermask': str(rng.choice(['correct', 'mask', 'none'])),
                          'masked_source': bool(rng.random() < 0.3),
                          'labels': str(rng.choice(['gaps', 'consecutive']))})
        for i in range(10):
            extra.append({'cls': 'AS', 'n': int(rng.integers(1, 6)), 'seed': 200 + i,
                          'aper': str(rng.choice(['circ', 'ell', 'ann', 'rect', 'sky'])),
                          'error': bool(rng.random() < 0.6), 'mask': bool(rng.random() < 0.4),
                          'wcs': bool(rng.random() < 0.5), 'unit': bool(rng.random() < 0.3),
                          'sigclip': bool(rng.random() < 0.3), 'offimage': bool(rng.random() < 0.3),
                          'local_bkg': bool(rng.random() < 0.5),
                          'masked_source': bool(rng.random() < 0.3),
                          'sum_method': str(rng.choice(['exact', 'center', 'subpixel']))})
    return sc, ap, extra


class Recorder:
    def __init__(self, ctx, cap=3):
        self.ctx = ctx
        self.cap = cap
        self.counts = {}

    def __call__(self, key, what, case):
        self.counts[key] = self.counts.get(key, 0) + 1
        if self.counts[key] <= self.cap:
            self.ctx.check(False, key=key, what=what, case=dict(case, key=key))


def run(ctx):
    rec = Recorder(ctx)
    rng = ctx.rng
    sc, ap, extra = configs(ctx)
    nmixed = 4 if ctx.thorough else 1
    ctx.budget_s = 480 if ctx.thorough else 45
    done = []
    # interleave so that a time cut still covers both classes and the independence clause
    plan = []
    for i in range(max(len(sc), len(ap))):
        if i < len(sc):
            plan.append(('commute', sc[i]))
        if i < len(ap):
            plan.append(('commute', ap[i]))
        if i < len(sc) and sc[i].get('extras') and (ctx.thorough or i < 4):
            plan.append(('indep', sc[i]))
        if i < len(sc) and (ctx.thorough or i in (0, 3)):
            plan.append(('pindep', sc[i]))
    for cfg in extra:
        plan.append(('commute', cfg))
        if cfg['cls'] == 'SC':
            plan.append(('indep', cfg))
            plan.append(('pindep', cfg))
    for what, cfg in plan:
        if ctx.out_of_time():
            ctx.note(f'time budget reached; configurations not run: '
                     f'{len(plan) - len(done)} of {len(plan)}')
            break
        if what == 'commute':
            nf, nn = check_commutation(ctx, cfg, rec, rng, nmixed)
            done.append((what, cfg['cls'], cfg['n'], nf, nn))
        elif what == 'indep':
            check_independence(ctx, cfg, rec, rng)
            done.append((what, cfg['cls'], cfg['n']))
        else:
            check_param_independence(ctx, cfg, rec)
            done.append((what, cfg['cls'], cfg['n']))
    # observation only (not part of the statement's operations): ApertureStats shares `meta`
    try:
        a = make(ap[0])
        b = a[0]
        if b.meta is a.meta:
            ctx.note('observation: ApertureStats.__getitem__ shares the `meta` dict with the parent '
                     '(no public ApertureStats method mutates it; a user write to child.meta shows '
                     'up in the parent)')
    except Exception:  # noqa: BLE001
        pass
    ctx.note(f'runs (kind, class, n, index forms, properties): {done}')
    ctx.note(f'failures per key (all occurrences): {rec.counts}')


# --------------------------------------------------------------------------- replay
def replay(case):
    try:
        cfg = case['cfg']
        if case.get('kind') == 'param-indep':
            bad = run_param_independence(cfg, case['form'], case['pre'], case['op'], case['actor'])
            if bad:
                return 'confirmed', f'the other catalog reports differently: {[b[0] for b in bad][:8]}', \
                    {'first': bad[0][0], 'got': short(bad[0][1]), 'untouched_twin': short(bad[0][2])}
            return 'spurious', 'the other catalog reports exactly what an untouched twin reports', None
        if case.get('kind') == 'indep':
            bad, list_ok, det = run_independence(cfg, case['form'], case['op'], case['actor'],
                                                 case['pre_eval'])
            if bad or not list_ok:
                return 'confirmed', f'other catalog changed in {bad}; actor list ok: {list_ok}', \
                    {'changed': bad, **det}
            return 'spurious', 'the other catalog is unchanged and the list is as documented', det
        base = make(cfg)
        names = prop_names(cfg, base)
        ref = read_all(base, names)
        labels = [int(v) for v in (base.labels if cfg['cls'] == 'SC' else base.ids)]
        prop = case.get('prop')
        if case.get('forms') is None:
            if _is_exc(ref.get(prop)):
                return 'confirmed', f'{prop} raises on the parent: {ref[prop][1]}', None
            return 'spurious', 'no exception', None
        try:
            got, again = run_history(cfg, case['forms'], case['hist'], names)
        except Exception as exc:  # noqa: BLE001
            return 'confirmed', f'indexing raised {exc!r}', None
        if prop is None:
            return 'spurious', 'indexing no longer raises', None
        if case.get('parent'):
            if _is_exc(again[prop]) or not same(again[prop], ref[prop]):
                return 'confirmed', f'parent {prop} = {short(again[prop])}, reference ' \
                    f'{short(ref[prop])}', None
            return 'spurious', 'parent unchanged', None
        bad = compare_child(cfg, case['forms'][-1], case['hist'], names, ref, labels, got)
        hit = [b for b in bad if b[2] == prop]
        if hit:
            return 'confirmed', hit[0][1], {'key': hit[0][0]}
        return 'spurious', 'values agree', None
    except Exception as exc:  # noqa: BLE001
        return 'error', repr(exc), None


_ = math
