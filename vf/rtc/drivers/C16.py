"""C16 - ApertureStats values equal direct statistics of the aperture pixel set.

Bounded run-time contract driver (engine E4).  Real code under test: photutils.aperture.ApertureStats (every
public statistic), with aperture_photometry / area_overlap as the relational reference for sum / sum_err /
sum_aper_area.

Oracle (from the property statement, pure Python / numpy on explicit pixel lists):
  * centre bag B_k: pixels of the image inside the box of position k whose 'center'-method weight is 1, not masked,
    with finite (data - bkg_k); sum bag S_k: same with the sum-method weight > 0.  With a sigma clip, the
    values of the bag are clipped (iterated median/mean +- sigma*std, own implementation) and rejected pixels leave
    the bag, the weights and the variance alike.
  * sum = SUM_S w (data - bkg), sum_err = sqrt(SUM_S w err^2), sum_aper_area = SUM_S w, center_aper_area = |B|;
    NaN iff the bag is empty.  Without sigma clip they must also equal aperture_photometry(data - bkg, mask | ~finite)
    and area_overlap(mask | ~finite) of the same method (1e-12).
  * min, max, mean, median, mode = 3 median - 2 mean, std, var (ddof 0), mad_std = 1.482602218505602 * MAD,
    biweight location (c = 6) / midvariance (c = 9) by their defining formulas, gini by the documented formula,
    all over the values of B.
  * centroid = SUM v x / SUM v, SUM v y / SUM v in IMAGE coordinates; cutout_centroid relative to the first in-image
    pixel of the box; raw / central moments up to order 3 by definition; covariance = normalised second central moments
    with SourceExtractor's 1/12 regularisation (NaN if det < 0; +1/12 on the diagonal while det < 1/144); eigenvalues,
    semimajor / semiminor sigma, fwhm = 2 sqrt(ln2 (l1 + l2)), orientation = atan2(2 sxy, sx2 - sy2)/2, eccentricity,
    elongation, ellipticity, cxx = sy2/det, cyy = sx2/det, cxy = -2 sxy/det.
  * off-image positions and positions whose bag is empty give NaN for every scalar statistic and never raise.
"""
import math

import numpy as np

BOUNDS = (
    "Images 9x11 and 13x15 (quick) plus 1x1, 4x3, 15x15 (thorough): Gaussian blob(s) + N(0,1) noise + level 10, three hot "
    "pixels, optional 5% NaN and one inf; masks {None, block + random 10%}; error {None, uniform(0.5,1.5)}; apertures: the 6 "
    "pixel classes (semi-sizes 0.3..3.5, rotated) + the 6 sky classes on a TAN WCS; 11 positions: interior (integer / generic), "
    "straddling left, bottom, right, top edges and the (0,0) corner, inside the masked block, tiny apertures with and without "
    "a pixel centre (own r=0.3 circle cases), off-image near and far; sum methods exact, center, subpixel(2,5); sigma clip "
    "{None, SigmaClip(3, maxiters=5), SigmaClip(sigma_lower=1.5, sigma_upper=2.5, maxiters=None, cenfunc='mean'), "
    "SigmaClip(2, maxiters=1)}; local_bkg {None, scalar 1.5, per-position array}. Tolerances: sums/areas 1e-12*(SUM|terms|+1); "
    "order statistics exact (1e-13 relative); mean/std/var/biweight 1e-10 relative to the value scale; centroid and moments "
    "1e-9 * conditioning (SUM|v|/|SUM v|); shape parameters 1e-7 (orientation compared through sin(2 dtheta) * anisotropy)."
)
RULE = (
    "Product image x mask x error x aperture x sum-method x sigma-clip x local_bkg, thinned in the quick tier by a covering "
    "design (every pair of factor levels occurs); one ApertureStats object per combination, all positions at once, plus "
    "one-position (scalar) objects for two positions. A case is (combination, position, statistic group); it is non-trivial "
    "when the centre bag (resp. sum bag) of the position is non-empty; NaN-expectation cases are counted separately."
)

COVNAMES = ('fwhm', 'semimajor_sigma', 'semiminor_sigma', 'orientation', 'eccentricity', 'elongation', 'ellipticity',
            'covar_sigx2', 'covar_sigy2', 'covar_sigxy', 'cxx', 'cyy', 'cxy')
MAD_K = 1.482602218505602   # 1 / Phi^-1(3/4)

SCALARS = ['sum', 'sum_err', 'sum_aper_area', 'center_aper_area', 'min', 'max', 'mean', 'median', 'mode', 'std', 'mad_std',
           'var', 'biweight_location', 'biweight_midvariance', 'fwhm', 'semimajor_sigma', 'semiminor_sigma', 'orientation',
           'eccentricity', 'elongation', 'ellipticity', 'covar_sigx2', 'covar_sigy2', 'covar_sigxy', 'cxx', 'cyy', 'cxy',
           'gini', 'xcentroid', 'ycentroid']

APERS = [('circ', (2.3,)), ('circ', (0.3,)), ('cann', (1.2, 3.1)), ('ell', (3.0, 1.2, 0.6)), ('eann', (1.0, 3.5, 2.0, 4.0 / 7.0, 2.2)),
         ('rect', (3.2, 1.9, 0.4)), ('rann', (1.5, 4.0, 3.0, 1.125, 1.1)), ('circ', (1.0,)),
         # rotation angles in the 4th and 2nd quadrant (sin and cos of opposite sign)
         ('rect', (4.4, 1.9, -0.6)), ('rann', (1.5, 4.0, 3.0, 1.125, 2.1))]


def make_aperture(kind, p, positions):
    from vf.rtc.drivers.C02 import make_aperture as mk
    return mk(kind, p, positions)


def make_scene(shape, variant, seed):
    ny, nx = shape
    rng = np.random.default_rng([seed, ny, nx, 31])
    y, x = np.mgrid[0:ny, 0:nx]
    data = 10.0 + rng.normal(0, 1.0, shape)
    data += 40.0 * np.exp(-0.5 * (((x - nx * 0.45) / 1.8) ** 2 + ((y - ny * 0.5) / 1.3) ** 2))
    data += 25.0 * np.exp(-0.5 * (((x - 1.0) / 1.2) ** 2 + ((y - 0.5) / 1.6) ** 2))
    for _ in range(3):
        data[rng.integers(0, ny), rng.integers(0, nx)] += 300.0
    if variant == 'nonfinite':
        data[rng.random(shape) < 0.05] = np.nan
        data[ny // 2, nx // 2 + 1] = np.inf
    err = rng.uniform(0.5, 1.5, shape)
    # a noiseless patch (error exactly 0) around the second position: apertures wholly inside it
    # have sum_err == 0.0, which is a number, not "no unmasked pixel"
    err[2:7, 1:6] = 0.0
    return data, err


def make_mask(shape, mid, seed):
    ny, nx = shape
    if mid == 'none':
        return None
    m = np.random.default_rng([seed, ny, nx, 37]).random(shape) < 0.10
    m[ny - 4:, nx - 5:] = True
    return m


def positions_for(shape):
    ny, nx = shape
    return [(nx * 0.45, ny * 0.5), (3.0, 4.0), (0.0, 0.0), (-0.8, ny * 0.5), (nx * 0.5 + 0.3, -0.6), (nx - 0.7, 2.2),
            (2.4, ny - 0.2), (nx - 2.5, ny - 2.0), (4.5, 4.5), (nx + 20.0, 3.0), (-1e4, 1e4)]


def make_sigclip(sid):
    from astropy.stats import SigmaClip
    if sid == 'none':
        return None
    if sid == 's3':
        return SigmaClip(sigma=3.0, maxiters=5)
    if sid == 'asym-mean':
        return SigmaClip(sigma_lower=1.5, sigma_upper=2.5, maxiters=None, cenfunc='mean')
    if sid == 's2-1':
        return SigmaClip(sigma=2.0, maxiters=1)
    raise ValueError(sid)


SIGPAR = {'s3': (3.0, 3.0, 5, 'median'), 'asym-mean': (1.5, 2.5, None, 'mean'), 's2-1': (2.0, 2.0, 1, 'median')}


def clip_keep(vals, sid):
    """Own sigma clipping of a bag of values -> boolean keep array."""
    vals = np.asarray(vals, dtype=float)
    keep = np.ones(vals.size, bool)
    if sid == 'none' or vals.size == 0:
        return keep
    lo, hi, maxiters, cen = SIGPAR[sid]
    it = 0
    while maxiters is None or it < maxiters:
        it += 1
        cur = vals[keep]
        c = float(np.median(cur)) if cen == 'median' else float(np.mean(cur))
        s = float(np.std(cur))
        new = keep & (vals >= c - lo * s) & (vals <= c + hi * s)
        if new.sum() == keep.sum():
            break
        keep = new
    return keep


# ----------------------------------------------------------------------------------------------
# direct statistics
# ----------------------------------------------------------------------------------------------
def biweight_loc(x, c=6.0):
    x = np.asarray(x, float)
    M = np.median(x)
    d = x - M
    mad = np.median(np.abs(d))
    if mad == 0:
        return float(M)
    u = d / (c * mad)
    w = (1 - u ** 2) ** 2
    w[np.abs(u) >= 1] = 0.0
    if w.sum() == 0:
        return float(M)
    return float(M + (d * w).sum() / w.sum())


def biweight_midvar(x, c=9.0):
    x = np.asarray(x, float)
    M = np.median(x)
    d = x - M
    mad = np.median(np.abs(d))
    if mad == 0:
        return 0.0
    u = d / (c * mad)
    m = np.abs(u) < 1
    u2 = u[m] ** 2
    num = (d[m] ** 2 * (1 - u2) ** 4).sum()
    den = ((1 - u2) * (1 - 5 * u2)).sum()
    return float(x.size * num / den ** 2)


def gini(x):
    x = np.sort(np.asarray(x, float))
    n = x.size
    tot = 0.0
    for i in range(n):
        tot += (2.0 * (i + 1) - n - 1) * abs(x[i])
    return tot / (abs(np.mean(x)) * n * (n - 1)) if n > 0 else math.nan


def centre_margin(kind, p, x0, y0, x, y):
    """Signed margin (> 0 inside, < 0 outside; |margin| small = close to the boundary) of the pixel
    centre (x, y) with respect to the shape of the given kind centred on (x0, y0): an analytic
    membership test that does not go through photutils."""
    dx, dy = x - x0, y - y0

    def rot(th):
        c, s_ = math.cos(th), math.sin(th)
        return dx * c + dy * s_, -dx * s_ + dy * c

    def ell(a, b, th):
        u, v = rot(th)
        return 1.0 - math.hypot(u / a, v / b)

    def rect(w, h, th):
        u, v = rot(th)
        return min(0.5 * w - abs(u), 0.5 * h - abs(v))
    if kind == 'circ':
        return p[0] - math.hypot(dx, dy)
    if kind == 'cann':
        return min(p[1] - math.hypot(dx, dy), math.hypot(dx, dy) - p[0])
    if kind == 'ell':
        return ell(p[0], p[1], p[2])
    if kind == 'eann':      # a_in, a_out, b_out, b_in, theta
        return min(ell(p[1], p[2], p[4]), -ell(p[0], p[3], p[4]))
    if kind == 'rect':
        return rect(p[0], p[1], p[2])
    if kind == 'rann':      # w_in, w_out, h_out, h_in, theta
        return min(rect(p[1], p[2], p[4]), -rect(p[0], p[3], p[4]))
    raise ValueError(kind)


def analytic_centre_count(kind, p, x0, y0, data, mask, bkg):
    """(number of unmasked finite pixels of the image whose centre lies in the shape, smallest
    |margin| met) by a loop over the whole image."""
    ny, nx = data.shape
    n, closest = 0, 1.0
    for y in range(ny):
        for x in range(nx):
            m = centre_margin(kind, p, x0, y0, x, y)
            closest = min(closest, abs(m))
            if m > 0 and not (mask is not None and mask[y, x]) and math.isfinite(float(data[y, x]) - bkg):
                n += 1
    return n, closest


def oracle_position(data, err, mask, bkg, Wc, Ws, box, sid):
    """Explicit pixel loops for one position. box=(ixmin, ixmax, iymin, iymax). Returns dict of expected values."""
    ny, nx = data.shape
    ixmin, ixmax, iymin, iymax = box
    ox, oy = max(ixmin, 0), max(iymin, 0)         # origin of the in-image part of the box (cutout coordinates)
    cen = []     # (x, y, v)
    summ = []    # (w, v, e2)
    overlap = False
    for j in range(iymax - iymin):
        y = iymin + j
        if not 0 <= y < ny:
            continue
        for i in range(ixmax - ixmin):
            x = ixmin + i
            if not 0 <= x < nx:
                continue
            overlap = True
            if mask is not None and mask[y, x]:
                continue
            v = float(data[y, x]) - bkg
            if not math.isfinite(v):
                continue
            if Wc[j, i] > 0:
                cen.append((x, y, v))
            if Ws[j, i] > 0:
                summ.append((float(Ws[j, i]), v, float(err[y, x]) ** 2 if err is not None else math.nan))
    out = {'overlap': overlap, 'origin': (ox, oy)}
    # sigma clipping
    n0 = (len(cen), len(summ))
    if cen:
        k = clip_keep([c[2] for c in cen], sid)
        cen = [c for c, kk in zip(cen, k) if kk]
    if summ:
        k = clip_keep([s[1] for s in summ], sid)
        summ = [s for s, kk in zip(summ, k) if kk]
    out['nclipped'] = (n0[0] - len(cen), n0[1] - len(summ))
    out['ncen'] = len(cen)
    out['nsum'] = len(summ)
    nan = math.nan
    E = {n: nan for n in SCALARS}
    tol = {}
    if summ:
        E['sum'] = sum(w * v for w, v, _ in summ)
        tol['sum'] = 1e-12 * (sum(abs(w * v) for w, v, _ in summ) + 1)
        E['sum_aper_area'] = sum(w for w, _, _ in summ)
        tol['sum_aper_area'] = 1e-12 * (E['sum_aper_area'] + 1)
        if err is not None:
            var = sum(w * e2 for w, _, e2 in summ)
            E['sum_err'] = math.sqrt(var)
            tol['sum_err'] = 1e-12 * (math.sqrt(var) + 1)
    if cen:
        vals = np.array([c[2] for c in cen])
        xs = np.array([c[0] for c in cen], float)
        ys = np.array([c[1] for c in cen], float)
        sc = float(np.max(np.abs(vals))) + 1.0
        E['center_aper_area'] = float(len(cen))
        E['min'], E['max'] = float(vals.min()), float(vals.max())
        srt = sorted(vals.tolist())
        n = len(srt)
        med = srt[n // 2] if n % 2 else 0.5 * (srt[n // 2 - 1] + srt[n // 2])
        E['median'] = med
        E['mean'] = math.fsum(srt) / n
        E['mode'] = 3.0 * med - 2.0 * E['mean']
        E['var'] = math.fsum((t - E['mean']) ** 2 for t in srt) / n
        E['std'] = math.sqrt(E['var'])
        ad = sorted(abs(t - med) for t in srt)
        mad = ad[n // 2] if n % 2 else 0.5 * (ad[n // 2 - 1] + ad[n // 2])
        E['mad_std'] = MAD_K * mad
        E['biweight_location'] = biweight_loc(vals)
        E['biweight_midvariance'] = biweight_midvar(vals)
        E['gini'] = gini(vals)
        for nme in ('min', 'max', 'median', 'mad_std', 'center_aper_area'):
            tol[nme] = 1e-13 * sc
        for nme in ('mean', 'mode', 'std', 'biweight_location'):
            tol[nme] = 1e-10 * sc
        tol['var'] = 1e-10 * sc * sc
        tol['biweight_midvariance'] = 1e-9 * sc * sc
        tol['gini'] = 1e-10 * (np.abs(vals).sum() / max(abs(vals.sum()), 1e-300))
        # moments in image coordinates
        m00 = math.fsum(vals.tolist())
        cond = float(np.abs(vals).sum()) / max(abs(m00), 1e-300)
        ext = max(ixmax - ixmin, iymax - iymin) + 1.0
        out['cond'] = cond
        if m00 != 0:
            xc = math.fsum((vals * xs).tolist()) / m00
            yc = math.fsum((vals * ys).tolist()) / m00
            E['xcentroid'], E['ycentroid'] = xc, yc
            tol['xcentroid'] = tol['ycentroid'] = 1e-9 * cond * ext
            dx, dy = xs - xc, ys - yc
            sx2 = math.fsum((vals * dx * dx).tolist()) / m00
            sy2 = math.fsum((vals * dy * dy).tolist()) / m00
            sxy = math.fsum((vals * dx * dy).tolist()) / m00
            out['mu_raw'] = (sx2 * m00, sy2 * m00, sxy * m00)
            det = sx2 * sy2 - sxy * sxy
            if abs(det) <= 1e-11 * cond * (abs(sx2 * sy2) + sxy * sxy + 1e-300):
                # rank-deficient pixel set (e.g. two pixels): the sign of det is decided by rounding; both outcomes of
                # the 'det < 0 -> NaN' rule are accepted, the regularised value is the reference
                out['det_amb'] = True
                det = 0.0
            if det < 0:
                sx2 = sy2 = sxy = nan
            else:
                guard = 0
                while det < (1.0 / 12) ** 2 and guard < 1000:
                    sx2 += 1.0 / 12
                    sy2 += 1.0 / 12
                    det = sx2 * sy2 - sxy * sxy
                    guard += 1
            E['covar_sigx2'], E['covar_sigy2'], E['covar_sigxy'] = sx2, sy2, sxy
            t2 = 1e-8 * cond * ext * ext
            tol['covar_sigx2'] = tol['covar_sigy2'] = tol['covar_sigxy'] = t2
            if not math.isnan(sx2):
                tr = sx2 + sy2
                rad = math.hypot(sx2 - sy2, 2 * sxy)
                l1, l2 = 0.5 * (tr + rad), 0.5 * (tr - rad)
                out['eig'] = (l1, l2)
                # the angle of the covariance matrix is defined whatever the sign of its
                # eigenvalues (negative net flux gives a negative-definite matrix)
                E['orientation'] = math.degrees(0.5 * math.atan2(2 * sxy, sx2 - sy2))
                out['aniso'] = rad / abs(tr) if tr != 0 else 0.0
                if l1 >= 0 and l2 >= 0:
                    E['semimajor_sigma'], E['semiminor_sigma'] = math.sqrt(l1), math.sqrt(l2)
                    E['fwhm'] = 2.0 * math.sqrt(math.log(2.0) * (l1 + l2))
                    E['eccentricity'] = math.sqrt(max(0.0, 1.0 - l2 / l1)) if l1 > 0 else nan
                    E['elongation'] = math.sqrt(l1 / l2) if l2 > 0 else math.inf
                    E['ellipticity'] = 1.0 - math.sqrt(l2 / l1) if l1 > 0 else nan
                    det = sx2 * sy2 - sxy * sxy
                    E['cxx'], E['cyy'], E['cxy'] = sy2 / det, sx2 / det, -2 * sxy / det
                    rel = 1e-7 * cond
                    for nme in ('semimajor_sigma', 'semiminor_sigma', 'fwhm', 'elongation', 'ellipticity'):
                        tol[nme] = rel * (abs(E[nme]) + 1)
                    for nme in ('cxx', 'cyy', 'cxy'):
                        tol[nme] = rel * (abs(E['cxx']) + abs(E['cyy']) + 1)
    out['E'] = E
    out['tol'] = tol
    out['cen'] = cen
    return out


def _arr(v):
    return np.asarray(getattr(v, 'value', v), dtype=float)


def _cmp(got, exp, tol):
    if math.isnan(exp):
        return math.isnan(got)
    if math.isinf(exp):
        return got == exp
    return math.isfinite(got) and abs(got - exp) <= tol


# ----------------------------------------------------------------------------------------------
# evaluation of one combination
# ----------------------------------------------------------------------------------------------
def eval_combo(case, counter=None):
    """case: shape, variant, mask, err, aper=[kind, params], sum_method, subpixels, sigclip, bkg ('none'|'scalar'|'array'|'high'),
    seed, sky (bool).  Returns list of (key, what, k)."""
    import astropy.units as u
    from photutils.aperture import ApertureStats, aperture_photometry
    shape = tuple(case['shape'])
    data, errmap = make_scene(shape, case['variant'], case['seed'])
    mask = make_mask(shape, case['mask'], case['seed'])
    err = errmap if case['err'] else None
    kind, p = case['aper']
    method, sub = case['sum_method'], case['subpixels']
    sid = case['sigclip']
    pos = positions_for(shape)
    if case.get('positions'):
        pos = [tuple(q) for q in case['positions']]
    n = len(pos)
    if case['bkg'] == 'none':
        bkg_in, bkgs = None, [0.0] * n
    elif case['bkg'] == 'scalar':
        bkg_in, bkgs = 1.5, [1.5] * n
    elif case['bkg'] == 'high':
        # above the sky level: the background-subtracted pixels of most apertures sum to a negative
        # number (centroid and moments are still those of the subtracted values)
        bkgs = [round(30.0 + 3.0 * k, 3) for k in range(n)]
        bkg_in = np.array(bkgs)
    else:
        bkgs = [round(0.7 * k - 2.0, 3) for k in range(n)]
        bkg_in = np.array(bkgs)
    fails = []
    tag = (f"img={shape}/{case['variant']} mask={case['mask']} err={case['err']} aper={kind}{tuple(p)} sum={method}/{sub} "
           f"clip={sid} bkg={case['bkg']}" + (' sky' if case.get('sky') else ''))

    def bad(key, what, k=None):
        fails.append((key, f'{what} [{tag}]', k))

    pap = make_aperture(kind, p, pos)
    wcs = None
    aper_in = pap
    if case.get('sky'):
        from vf.rtc.drivers.C02 import make_sky_aperture, make_wcs
        wcs = make_wcs(0)
        sky = wcs.pixel_to_world(np.array([q[0] for q in pos]), np.array([q[1] for q in pos]))
        aper_in = make_sky_aperture(kind, p, sky)
        pap = aper_in.to_pixel(wcs)      # C02 checks sky == to_pixel; here the pixel image defines the pixel sets
    try:
        st = ApertureStats(data, aper_in, error=err, mask=mask, wcs=wcs, sigma_clip=make_sigclip(sid), sum_method=method,
                           subpixels=sub, local_bkg=bkg_in)
    except Exception as e:  # noqa: BLE001
        bad('init/raises', f'{type(e).__name__}: {e}')
        return fails
    got = {}
    for name in SCALARS + ['centroid', 'cutout_centroid', 'moments', 'moments_central', 'covariance', 'covariance_eigvals',
                           'inertia_tensor', 'bbox_xmin', 'bbox_xmax', 'bbox_ymin', 'bbox_ymax', 'id', 'data_cutout',
                           'data_sumcutout', 'error_sumcutout', 'sky_centroid', 'sky_centroid_icrs', 'bbox', 'isscalar', 'n_apertures']:
        try:
            got[name] = getattr(st, name)
        except Exception as e:  # noqa: BLE001
            bad(f'raises/{name}', f'{type(e).__name__}: {e}')
    try:
        tbl = st.to_table()
        tbl_all = st.to_table(columns=SCALARS)
    except Exception as e:  # noqa: BLE001
        bad('raises/to_table', f'{type(e).__name__}: {e}')
        tbl = tbl_all = None
    if any(k.startswith('raises/') for k, _, _ in fails):
        return fails

    mc = pap.to_mask('center')
    ms = pap.to_mask(method, subpixels=sub)
    fmask = ~np.isfinite(data)
    if mask is not None:
        fmask = fmask | mask

    if got['n_apertures'] != n or got['isscalar']:
        bad('meta/n_apertures-or-isscalar', f'{got["n_apertures"]}, {got["isscalar"]}')
    if list(np.atleast_1d(got['id'])) != list(range(1, n + 1)):
        bad('meta/id', f'{got["id"]}')

    for k in range(n):
        bb = mc[k].bbox
        box = (bb.ixmin, bb.ixmax, bb.iymin, bb.iymax)
        o = oracle_position(data, err, mask, bkgs[k], np.asarray(mc[k].data), np.asarray(ms[k].data), box, sid)
        E, T = o['E'], o['tol']
        if counter is not None:
            counter(k, pos[k], o)
        # the centre-method pixel set against an analytic membership test over the whole image
        # (independent of photutils' masks and bounding boxes); skipped when a pixel centre lies
        # within 1e-9 of the boundary
        nin, closest = analytic_centre_count(kind, p, pos[k][0], pos[k][1], data, mask, bkgs[k])
        if closest > 1e-9 and sid == 'none' and not math.isnan(E['center_aper_area']) \
                and int(E['center_aper_area']) != nin:
            bad('center-set/differs-from-analytic-membership',
                f'pos={pos[k]}: {int(E["center_aper_area"])} unmasked pixel centres in the centre mask, '
                f'{nin} inside the shape by the analytic test', k)
        # bbox_* are inclusive indices of the aperture box
        gb = (int(_arr(got['bbox_xmin'])[k]), int(_arr(got['bbox_xmax'])[k]), int(_arr(got['bbox_ymin'])[k]), int(_arr(got['bbox_ymax'])[k]))
        if gb != (box[0], box[1] - 1, box[2], box[3] - 1):
            bad('bbox/bounds', f'pos={pos[k]} got {gb} box {box}', k)
        for name in SCALARS:
            g = float(_arr(got[name])[k])
            e = E[name]
            if name == 'orientation' and not math.isnan(e) and math.isfinite(g):
                dth = math.radians(g - e)
                ok = abs(math.sin(2 * dth)) * o.get('aniso', 1.0) <= 1e-7 * o.get('cond', 1.0) and -90.0 - 1e-9 <= g <= 90.0 + 1e-9
            elif name == 'eccentricity' and not math.isnan(e):
                ok = math.isfinite(g) and abs(g * g - e * e) <= 1e-7 * o.get('cond', 1.0)
            else:
                ok = _cmp(g, e, T.get(name, 0.0))
            if not ok and o.get('det_amb') and math.isnan(g) and name in COVNAMES:
                ok = True
            if not ok:
                if name in ('xcentroid', 'ycentroid'):
                    off = (box[0] if name == 'xcentroid' else box[2])
                    if off < 0 and not math.isnan(e) and abs(g - (e + off)) <= T.get(name, 0.0) + 1e-9:
                        bad('centroid/shifted-by-negative-bbox-origin', f'pos={pos[k]} {name}={g!r}, pixels give {e!r} (box origin {off})', k)
                        continue
                if name == 'sum_aper_area' and math.isnan(g) and not math.isnan(e):
                    bad('sum_aper_area/nan-with-positive-weights', f'pos={pos[k]} expected {e!r}', k)
                    continue
                if math.isnan(e):
                    bad(f'nan-expected/{name}', f'pos={pos[k]} got {g!r} for an empty pixel set (overlap={o["overlap"]})', k)
                else:
                    bad(f'stat/{name}', f'pos={pos[k]} got {g!r} expected {e!r} tol {T.get(name, 0.0):.2e} (ncen={o["ncen"]}, nsum={o["nsum"]})', k)
        # vector-valued: centroid, cutout_centroid
        cg = _arr(got['centroid'])[k]
        if not (_same1(cg[0], float(_arr(got['xcentroid'])[k])) and _same1(cg[1], float(_arr(got['ycentroid'])[k]))):
            bad('centroid/not-(xcentroid,ycentroid)', f'pos={pos[k]}', k)
        cc = _arr(got['cutout_centroid'])[k]
        ex, ey = E['xcentroid'], E['ycentroid']
        if not (_cmp(float(cc[0]), ex - o['origin'][0] if not math.isnan(ex) else ex, T.get('xcentroid', 0.0)) and
                _cmp(float(cc[1]), ey - o['origin'][1] if not math.isnan(ey) else ey, T.get('ycentroid', 0.0))):
            bad('cutout_centroid/differs', f'pos={pos[k]} got {cc.tolist()} expected {(ex - o["origin"][0], ey - o["origin"][1])}', k)
        # covariance matrix / eigenvalues / moments
        cv = _arr(got['covariance'])[k]
        for (a_, b_), nme in (((0, 0), 'covar_sigx2'), ((1, 1), 'covar_sigy2'), ((0, 1), 'covar_sigxy'), ((1, 0), 'covar_sigxy')):
            if not _cmp(float(cv[a_, b_]), E[nme], T.get(nme, 0.0)) and not (o.get('det_amb') and math.isnan(float(cv[a_, b_]))):
                bad('stat/covariance-matrix', f'pos={pos[k]} [{a_},{b_}]={float(cv[a_, b_])!r} expected {E[nme]!r}', k)
                break
        ev = _arr(got['covariance_eigvals'])[k]
        if 'eig' in o and o['eig'][1] >= 0 and not (o.get('det_amb') and np.all(np.isnan(ev))):
            if not (_cmp(float(ev[0]), o['eig'][0], T['covar_sigx2'] * 4) and _cmp(float(ev[1]), o['eig'][1], T['covar_sigx2'] * 4)):
                bad('stat/covariance_eigvals', f'pos={pos[k]} got {ev.tolist()} expected {o["eig"]}', k)
        elif not o['cen'] and not np.all(np.isnan(ev)):
            bad('nan-expected/covariance_eigvals', f'pos={pos[k]} got {ev.tolist()}', k)
        if o['cen']:
            ox, oy = o['origin']
            mom = _arr(got['moments'])[k]
            momc = _arr(got['moments_central'])[k]
            xs = np.array([c[0] - ox for c in o['cen']], float)
            ys = np.array([c[1] - oy for c in o['cen']], float)
            vs = np.array([c[2] for c in o['cen']])
            ext = max(box[1] - box[0], box[3] - box[2]) + 1.0
            okm = True
            for i in range(4):
                for j in range(4):
                    e_ = float(np.sum(vs * ys ** i * xs ** j))
                    if not abs(float(mom[i, j]) - e_) <= 1e-10 * (np.sum(np.abs(vs)) * ext ** (i + j) + 1):
                        okm = False
            if not okm:
                bad('stat/moments', f'pos={pos[k]} raw moments differ from SUM v y^i x^j over the pixel set', k)
            if not math.isnan(ex):
                cx_, cy_ = ex - ox, ey - oy
                okc = True
                for i in range(4):
                    for j in range(4):
                        e_ = float(np.sum(vs * (ys - cy_) ** i * (xs - cx_) ** j))
                        if not abs(float(momc[i, j]) - e_) <= 1e-8 * o['cond'] * (np.sum(np.abs(vs)) * ext ** (i + j) + 1):
                            okc = False
                if not okc:
                    bad('stat/moments_central', f'pos={pos[k]}', k)
                it = _arr(got['inertia_tensor'])[k]
                mx2, my2, mxy = o['mu_raw']
                t_ = 1e-8 * o['cond'] * (np.sum(np.abs(vs)) * ext ** 2 + 1)
                if not (abs(it[0, 1] + mxy) <= t_ and abs(it[1, 0] + mxy) <= t_ and abs(it[0, 0] + it[1, 1] - mx2 - my2) <= t_
                        and min(abs(it[0, 0] - mx2), abs(it[0, 0] - my2)) <= t_):
                    bad('stat/inertia_tensor', f'pos={pos[k]}', k)
        # cutouts: data_cutout values = centre bag (order row-major), shapes = in-image box
        dc = got['data_cutout'][k]
        bagv = [c[2] for c in sorted(o['cen'], key=lambda c: (c[1], c[0]))]
        if o['overlap']:
            comp = np.asarray(dc.compressed(), float)
            if not (comp.size == len(bagv) and np.allclose(comp, bagv, rtol=0, atol=1e-12 * (np.max(np.abs(bagv)) + 1) if bagv else 0)):
                bad('cutout/data_cutout-values-not-the-centre-bag', f'pos={pos[k]} n={comp.size} expected {len(bagv)}', k)
        # table
        if tbl_all is not None:
            for name in SCALARS:
                if not _same1(float(_arr(tbl_all[name])[k]), float(_arr(got[name])[k])):
                    bad('to_table/differs-from-property', f'{name} pos={pos[k]}', k)
                    break
        # relational: same method photometry on (data - bkg) with mask | nonfinite (no sigma clip)
        if sid == 'none':
            a1 = make_aperture(kind, p, pos[k]) if not case.get('sky') else pap[k]
            d_ = data - bkgs[k]
            t1 = aperture_photometry(d_, a1, error=err, mask=fmask, method=method, subpixels=sub)
            ar = float(a1.area_overlap(d_, mask=fmask, method=method, subpixels=sub))
            ps = float(_arr(t1['aperture_sum'])[0])
            gs = float(_arr(got['sum'])[k])
            ga = float(_arr(got['sum_aper_area'])[k])
            if o['nsum'] > 0:
                if not (abs(gs - ps) <= T['sum'] and abs(ga - ar) <= T['sum_aper_area']):
                    if math.isnan(ga) and math.isfinite(ar):
                        bad('sum_aper_area/nan-with-positive-weights', f'pos={pos[k]} area_overlap={ar!r}', k)
                    else:
                        bad('relational/sum-or-area-differs-from-aperture_photometry', f'pos={pos[k]} sum {gs!r} vs {ps!r}; area {ga!r} vs {ar!r}', k)
                if err is not None:
                    pe = float(_arr(t1['aperture_sum_err'])[0])
                    if not abs(float(_arr(got['sum_err'])[k]) - pe) <= T['sum_err']:
                        bad('relational/sum_err-differs-from-aperture_photometry', f'pos={pos[k]}', k)
        # sky centroid
        if wcs is not None and not math.isnan(ex):
            sc = got['sky_centroid'][k]
            gx, gy = float(_arr(got['xcentroid'])[k]), float(_arr(got['ycentroid'])[k])
            if math.isfinite(gx) and math.isfinite(gy):
                ref = wcs.pixel_to_world(gx, gy)
                if not sc.separation(ref).arcsec <= 1e-6:
                    bad('sky_centroid/not-wcs-of-centroid', f'pos={pos[k]}', k)
    if wcs is None:
        sc = got['sky_centroid']
        if not all(v is None for v in np.atleast_1d(sc)):
            bad('sky_centroid/not-None-without-wcs', f'{sc!r}')

    # scalar (single-position) objects == row of the multi-position object; slicing
    if case.get('extras'):
        for k in sorted({0, min(2, n - 1), n - 1}):
            try:
                a1 = make_aperture(kind, p, pos[k]) if not case.get('sky') else aper_in[k]
                s1 = ApertureStats(data, a1, error=err, mask=mask, wcs=wcs, sigma_clip=make_sigclip(sid), sum_method=method,
                                   subpixels=sub, local_bkg=None if bkg_in is None else bkgs[k])
                s2 = st[k]
                for name in SCALARS:
                    v1 = float(_arr(getattr(s1, name)))
                    v2 = float(_arr(getattr(s2, name)))
                    v0 = float(_arr(got[name])[k])
                    # a one-position SKY aperture is converted with the pixel scale at its own position (documented), so
                    # only the slice is compared for sky apertures
                    if not ((case.get('sky') or _same1(v1, v0)) and _same1(v2, v0)):
                        bad('scalar/single-position-or-slice-differs-from-batch', f'{name} pos={pos[k]}: single {v1!r} slice {v2!r} batch {v0!r}', k)
                        break
            except Exception as e:  # noqa: BLE001
                bad('scalar/raises', f'pos={pos[k]} {type(e).__name__}: {e}', k)
        # Quantity form
        try:
            sq = ApertureStats(data * u.Jy, aper_in, error=None if err is None else err * u.Jy, mask=mask, wcs=wcs,
                               sigma_clip=make_sigclip(sid), sum_method=method, subpixels=sub,
                               local_bkg=None if bkg_in is None else bkg_in * u.Jy)
            for name, un in (('sum', u.Jy), ('mean', u.Jy), ('var', u.Jy ** 2), ('sum_err', u.Jy), ('median', u.Jy), ('std', u.Jy),
                             ('biweight_midvariance', u.Jy ** 2), ('min', u.Jy)):
                v = getattr(sq, name)
                if not (getattr(v, 'unit', None) == un and np.array_equal(_arr(v), _arr(got[name]), equal_nan=True)):
                    bad('quantity/differs-from-bare-arrays', f'{name}: unit {getattr(v, "unit", None)}')
                    break
        except Exception as e:  # noqa: BLE001
            bad('quantity/raises', f'{type(e).__name__}: {e}')
        # inputs unchanged
        d0, e0 = make_scene(shape, case['variant'], case['seed'])
        m0 = make_mask(shape, case['mask'], case['seed'])
        if not (np.array_equal(d0, data, equal_nan=True) and np.array_equal(e0, errmap) and (mask is None or np.array_equal(m0, mask))):
            bad('frame/inputs-modified', '')
    seen = set()
    return [f for f in fails if not ((f[0], f[2]) in seen or seen.add((f[0], f[2])))]


def _same1(a, b):
    return (math.isnan(a) and math.isnan(b)) or a == b


# ----------------------------------------------------------------------------------------------
# run / replay
# ----------------------------------------------------------------------------------------------
def run(ctx):
    th = ctx.thorough
    seed = int(ctx.seed)
    images = [((9, 11), 'finite'), ((13, 15), 'nonfinite')]
    if th:
        images += [((9, 11), 'nonfinite'), ((15, 15), 'finite'), ((4, 3), 'finite'), ((1, 1), 'finite')]
    masks = ['none', 'block']
    # subpixels is documented as ignored unless sum_method == 'subpixel' (and subpixel with 1 is
    # the 'center' method): ('exact', 1) must still be the exact overlap
    methods = [('exact', 5), ('center', 5), ('subpixel', 5), ('subpixel', 2), ('exact', 1), ('subpixel', 1)]
    clips = ['none', 's3', 'asym-mean', 's2-1']
    bkgs = ['none', 'scalar', 'array', 'high']
    combos = 0
    nz = [0, 0, 0]
    idx = 0
    kcount = {}
    for ii, (shape, variant) in enumerate(images):
        for mi, mid in enumerate(masks):
            for ei, useerr in enumerate((True, False)):
                for ai, (kind, p) in enumerate(APERS):
                    for qi, (method, sub) in enumerate(methods):
                        for ci, sid in enumerate(clips):
                            for bi, bk in enumerate(bkgs):
                                for sky in (False, True):
                                    idx += 1
                                    if sky and (kind, p) == ('circ', (0.3,)):
                                        continue
                                    if th:
                                        # pairwise-plus design: keep a sixth of the product, all of the no-clip/no-bkg plane
                                        keep = (ii + mi + ei + ai + qi + ci + bi + sky) % 6 == 0 or (ci == 0 and bi == 0 and not sky and ei == 0)
                                    else:
                                        keep = (ii + 2 * mi + 3 * ei + ai + 5 * qi + 7 * ci + 11 * bi + 13 * sky) % 16 == 0 or \
                                               (ci == 0 and bi == 0 and not sky and ei == 0 and (ii + mi) % 2 == 0 and qi in (0, 1) and ii < 2)
                                    if not keep:
                                        continue
                                    case = {'chk': 'combo', 'shape': list(shape), 'variant': variant, 'mask': mid, 'err': useerr,
                                            'aper': [kind, list(p)], 'sum_method': method, 'subpixels': sub, 'sigclip': sid, 'bkg': bk,
                                            'seed': seed, 'sky': sky, 'extras': combos % 4 == 0}
                                    combos += 1

                                    def counter(k, pos, o, case=case):
                                        key = (tuple(case['shape']), case['variant'], case['mask'], case['err'], case['aper'][0],
                                               tuple(case['aper'][1]), case['sum_method'], case['subpixels'], case['sigclip'], case['bkg'], case['sky'], k)
                                        ctx.case(key + ('centre',), nontrivial=o['ncen'] > 0,
                                                 contract='centre-bag statistics / centroid / shape' if o['ncen'] > 0 else 'NaN for empty pixel set',
                                                 sample={'shape': case['shape'], 'aper': case['aper'], 'pos': list(pos), 'ncen': o['ncen']})
                                        ctx.case(key + ('sum',), nontrivial=o['nsum'] > 0,
                                                 contract='sum / sum_err / sum_aper_area' if o['nsum'] > 0 else 'NaN for empty pixel set')
                                        nz[0] += o['ncen'] > 0
                                        nz[2] += (o['nclipped'][0] > 0) + (o['nclipped'][1] > 0)
                                        nz[1] += (o['ncen'] == 0 and o['nsum'] > 0)
                                    fails = eval_combo(case, counter)
                                    _record(ctx, fails, case, kcount)
    # dedicated tiny-aperture cases (F17: no pixel centre inside, positive exact weights) and the (0,0)-corner centroid
    for method, sub in methods:
        for sid in ('none', 's3'):
            case = {'chk': 'combo', 'shape': [9, 11], 'variant': 'finite', 'mask': 'none', 'err': True, 'aper': ['circ', [0.3]],
                    'sum_method': method, 'subpixels': sub, 'sigclip': sid, 'bkg': 'scalar', 'seed': seed, 'sky': False, 'extras': True,
                    'positions': [[4.5, 4.5], [3.5, 3.4], [3.0, 3.1], [0.2, -0.4], [-0.45, 5.0], [10.45, 8.4], [30.0, 30.0]]}
            combos += 1

            def counter2(k, pos, o, case=case):
                ctx.case(('tiny', case['sum_method'], case['subpixels'], case['sigclip'], k), nontrivial=o['nsum'] > 0,
                         contract='tiny aperture: sum family finite, centre family NaN')
            fails = eval_combo(case, counter2)
            _record(ctx, fails, case, kcount)
    if kcount:
        ctx.note('violations per key (at most 8 of each are recorded as failures): ' + repr(dict(sorted(kcount.items()))))
    ctx.note(f'{combos} ApertureStats objects; {nz[0]} positions with a non-empty centre bag; {nz[1]} with an empty centre bag but positive sum weights; '
             f'{nz[2]} bags from which the sigma clip removed at least one pixel')


def _record(ctx, fails, case, kcount):
    for key, what, k in fails:
        kcount[key] = kcount.get(key, 0) + 1
        if kcount[key] <= 8:      # one defect is hit by many positions; record a few, count all
            ctx.check(False, key, what, case=dict(case, fkey=key, extras=True))


def replay(case):
    try:
        fails = eval_combo(dict(case, extras=True))
    except Exception as e:  # noqa: BLE001
        return ('error', f'{type(e).__name__}: {e}', None)
    want = case.get('fkey')
    hit = [f for f in fails if want is None or f[0] == want]
    if hit:
        return ('confirmed', hit[0][1], {'failures': [[f[0], f[1]] for f in fails][:20]})
    return ('spurious', 'contract holds on replay', {'failures': [[f[0], f[1]] for f in fails][:20]})
