"""C04 - detect_sources is exact connected-component labelling above threshold (bounded rtc driver).

Real functions exercised: photutils.segmentation.detect_sources, detect_threshold, SourceFinder(deblend=False),
SegmentationImage (fresh object on the returned array).  Oracle: a union-find connected-component labelling written
from the property statement (explicit Python loops, no scipy / photutils).
"""
import itertools
import math
import warnings

import numpy as np

BOUNDS = (
    "Exhaustive within: (A) every image over the value set {0,1,2,NaN} on every shape h*w <= 4 (quick) / <= 6 "
    "(thorough; 2x3 and 3x2 with a reduced parameter set in quick), thresholds {0,1,2 (ties with a data value), 1.5, "
    "a per-pixel array mixing ties/NaN/inf}, npixels 1..h*w, connectivity 4 and 8, no mask and one fixed mask; "
    "(B) all 2^9 above/below patterns on 3x3, 'below' pixels being exact ties / lower / NaN / -inf and 'above' pixels "
    "nextafter(thr) / thr+1 / +inf, scalar and per-pixel thresholds, npixels 1..9, both connectivities, with and "
    "without a mask; (C) all 2^8 binary patterns on the 8-pixel shapes 1x8, 8x1, 2x4, 4x2 (npixels 1..8); "
    "(D) all (pattern, mask) pairs on 2x2 and 2x3 (mask not all-True); (E) integer-dtype images with integer "
    "thresholds; (F) seeded random plateau images up to 14x17 with NaN/inf, masks and 2-D thresholds (40 quick / "
    "400 thorough); (G) SourceFinder(deblend=False) on all 3x3 patterns; (H) detect_threshold on scalar/array/int "
    "forms of background and error (exact IEEE equality with background + nsigma*error) and on sigma-clipped "
    "estimates (rel. tol 1e-12 against an own sigma-clip loop).  Every comparison of label arrays, labels, slices "
    "and areas is exact (integers)."
)
RULE = (
    "Enumerations are nested loops (seed-independent) except stage F which draws from ctx.rng.  A case is one call of "
    "the real function; its identity is (stage, shape, data bytes, threshold, npixels, connectivity, mask).  A case "
    "is non-trivial when at least one pixel is above threshold and unmasked (so that component construction, pruning "
    "or relabelling is exercised); calls where nothing is above threshold only exercise the None/warning clause."
)

_CAP = {}


def _chk(ctx, ok, key, what, case):
    if ok:
        return True
    n = _CAP.get(key, 0)
    _CAP[key] = n + 1
    if n < 4:
        ctx.check(False, key, what, case)
    return False


# ----------------------------------------------------------------------------- oracle

_COMP_CACHE = {}


def uf_components(bits, h, w, conn):
    """Connected components of the pixel set `bits` (tuple of 0/1 in raster order) by union-find.

    Returns a list of components, each a list of raster indices in increasing order; the list is ordered
    by the first (smallest raster index) pixel of each component.
    """
    key = (bits, h, w, conn)
    got = _COMP_CACHE.get(key)
    if got is not None:
        return got
    parent = list(range(h * w))

    def find(i):
        while parent[i] != i:
            parent[i] = parent[parent[i]]
            i = parent[i]
        return i

    def union(i, j):
        ri, rj = find(i), find(j)
        if ri != rj:
            if ri < rj:
                parent[rj] = ri
            else:
                parent[ri] = rj

    for y in range(h):
        for x in range(w):
            i = y * w + x
            if not bits[i]:
                continue
            if x > 0 and bits[i - 1]:
                union(i, i - 1)
            if y > 0 and bits[i - w]:
                union(i, i - w)
            if conn == 8 and y > 0:
                if x > 0 and bits[i - w - 1]:
                    union(i, i - w - 1)
                if x < w - 1 and bits[i - w + 1]:
                    union(i, i - w + 1)
    groups = {}
    for i in range(h * w):
        if bits[i]:
            groups.setdefault(find(i), []).append(i)
    comps = sorted(groups.values(), key=lambda px: px[0])
    if len(_COMP_CACHE) < 400000:
        _COMP_CACHE[key] = comps
    return comps


def oracle_bits(data, thr, mask):
    """B(p) = data(p) > thr(p) and not masked; NaN compares false (explicit loop on Python floats)."""
    h, w = data.shape
    d = data.tolist()
    t = thr.tolist() if isinstance(thr, np.ndarray) else None
    m = mask.tolist() if mask is not None else None
    bits = []
    for y in range(h):
        for x in range(w):
            v = d[y][x]
            tv = t[y][x] if t is not None else thr
            above = (v == v) and (tv == tv) and (v > tv)
            if m is not None and m[y][x]:
                above = False
            bits.append(1 if above else 0)
    return tuple(bits)


def oracle_detect(bits, h, w, conn, npix):
    """Expected label array (list of lists), slices and areas; None when no component qualifies."""
    comps = uf_components(bits, h, w, conn)
    out = [0] * (h * w)
    slices, areas = [], []
    n = 0
    for px in comps:
        if len(px) >= npix:
            n += 1
            for i in px:
                out[i] = n
            ys = [i // w for i in px]
            xs = [i % w for i in px]
            slices.append((slice(min(ys), max(ys) + 1), slice(min(xs), max(xs) + 1)))
            areas.append(len(px))
    if n == 0:
        return None
    return out, slices, areas, n


# ----------------------------------------------------------------------------- encoding for replay

def _enc(a):
    if a is None:
        return None
    if isinstance(a, np.ndarray):
        return {'dtype': str(a.dtype), 'shape': list(a.shape), 'v': [_encf(v) for v in a.ravel().tolist()]}
    return _encf(a)


def _encf(v):
    if isinstance(v, (bool, np.bool_)):
        return bool(v)
    if isinstance(v, np.floating):
        v = float(v)
    if isinstance(v, np.integer):
        return int(v)
    if isinstance(v, float):
        if v != v:
            return 'nan'
        if v == math.inf:
            return 'inf'
        if v == -math.inf:
            return '-inf'
        return v.hex()
    return v


def _decf(v):
    if isinstance(v, str):
        if v in ('nan', 'inf', '-inf'):
            return float(v)
        return float.fromhex(v)
    return v


def _dec(e):
    if e is None:
        return None
    if isinstance(e, dict):
        return np.array([_decf(v) for v in e['v']], dtype=e['dtype']).reshape(e['shape'])
    return _decf(e)


# ----------------------------------------------------------------------------- one detect case

_REAL = []
_FRESH_CACHE = {}


def _real():
    if not _REAL:
        from photutils.segmentation import SegmentationImage, SourceFinder, detect_sources
        from photutils.utils.exceptions import NoDetectionsWarning
        _REAL.extend([SegmentationImage, SourceFinder, detect_sources, NoDetectionsWarning])
    return _REAL


def fresh_attrs(gd):
    """Attributes of a freshly constructed SegmentationImage on a copy of `gd` (memoised per array)."""
    key = (gd.shape, str(gd.dtype), gd.tobytes())
    got = _FRESH_CACHE.get(key)
    if got is None:
        f = _real()[0](gd.copy())
        got = (f.labels.tolist(), list(f.slices), f.areas.tolist(), f.nlabels, int(f.max_label), list(f.bbox))
        if len(_FRESH_CACHE) < 200000:
            _FRESH_CACHE[key] = got
    return got

def eval_detect(data, thr, npix, conn, mask, finder=False):
    """Run the real function and the oracle; return list of (key, what) violations and the bits."""
    SegmentationImage, SourceFinder, detect_sources, NoDetectionsWarning = _real()
    h, w = data.shape
    bits = oracle_bits(data, thr, mask)
    exp = oracle_detect(bits, h, w, conn, npix)
    viol = []
    d0 = data.copy()
    try:
        with warnings.catch_warnings(record=True) as wlist:
            warnings.simplefilter('always')
            if finder:
                got = SourceFinder(npix, connectivity=conn, deblend=False, progress_bar=False)(data, thr, mask=mask)
            else:
                got = detect_sources(data, thr, npix, connectivity=conn, mask=mask)
    except Exception as e:  # noqa: BLE001
        return [('finder/exception' if finder else 'detect/exception', f'raised {e!r}')], bits
    pre = 'finder' if finder else 'detect'
    nodet = [x for x in wlist if issubclass(x.category, NoDetectionsWarning)]
    if (exp is None) != (got is None):
        viol.append((f'{pre}/none-iff-nothing-qualifies', f'expected None={exp is None}, got None={got is None}'))
        return viol, bits
    if got is None:
        if len(nodet) != 1:
            viol.append((f'{pre}/no-detections-warning', f'None returned with {len(nodet)} NoDetectionsWarning'))
        return viol, bits
    if nodet:
        viol.append((f'{pre}/no-detections-warning', 'NoDetectionsWarning emitted although sources were returned'))
    out, slices, areas, n = exp
    gd = got.data
    if not (isinstance(gd, np.ndarray) and gd.shape == (h, w) and np.issubdtype(gd.dtype, np.integer)):
        viol.append((f'{pre}/array-type', f'result array shape/dtype {getattr(gd, "shape", None)} {getattr(gd, "dtype", None)}'))
        return viol, bits
    if gd.ravel().tolist() != out:
        viol.append((f'{pre}/partition-labels', f'label array {gd.tolist()} != expected {np.array(out).reshape(h, w).tolist()}'))
        return viol, bits
    # attributes of the returned object: vs the oracle and vs a fresh object on the same array
    try:
        glabels = np.asarray(got.labels)
        gslices = list(got.slices)
        gareas = np.asarray(got.areas)
        fl, fs, fa, fn, fm, fb = fresh_attrs(gd)
        if glabels.tolist() != list(range(1, n + 1)):
            viol.append((f'{pre}/labels-1..N', f'labels {glabels.tolist()} expected 1..{n}'))
        if gslices != slices:
            viol.append((f'{pre}/slices-vs-oracle', f'slices {gslices} expected {slices}'))
        if gareas.tolist() != areas:
            viol.append((f'{pre}/areas-vs-oracle', f'areas {gareas.tolist()} expected {areas}'))
        if not (glabels.tolist() == fl and gslices == fs and gareas.tolist() == fa and got.nlabels == fn
                and int(got.max_label) == fm and list(got.bbox) == fb):
            viol.append((f'{pre}/attrs-vs-fresh', f'labels/slices/areas {glabels.tolist()} {gslices} {gareas.tolist()} '
                         f'!= fresh {fl} {fs} {fa}'))
        if glabels.dtype != gd.dtype:
            viol.append((f'{pre}/labels-dtype', f'labels dtype {glabels.dtype} != data dtype {gd.dtype}'))
    except Exception as e:  # noqa: BLE001
        viol.append((f'{pre}/attribute-exception', f'attribute read raised {e!r}'))
    if not np.array_equal(d0, data, equal_nan=True):
        viol.append((f'{pre}/input-modified', 'input image modified'))
    return viol, bits


def do_detect(ctx, stage, data, thr, npix, conn, mask, finder=False):
    viol, bits = eval_detect(data, thr, npix, conn, mask, finder=finder)
    tkey = thr.tobytes() if isinstance(thr, np.ndarray) else repr(thr)
    mkey = mask.tobytes() if mask is not None else None
    ctx.case((stage, data.shape, str(data.dtype), data.tobytes(), tkey, npix, conn, mkey, finder),
             nontrivial=any(bits), contract='SourceFinder(deblend=False)==oracle' if finder else 'detect_sources==union-find',
             sample={'stage': stage, 'data': repr(data.tolist()), 'thr': repr(thr.tolist() if isinstance(thr, np.ndarray) else thr),
                     'npixels': npix, 'conn': conn} if ctx.evaluations % 50000 == 7 else None)
    for key, what in viol:
        _chk(ctx, False, key, f'{what}; data={data.tolist()} thr={thr.tolist() if isinstance(thr, np.ndarray) else thr} '
             f'npixels={npix} conn={conn} mask={None if mask is None else mask.tolist()}',
             {'kind': 'finder' if finder else 'detect', 'data': _enc(data), 'thr': _enc(thr), 'npixels': npix,
              'conn': conn, 'mask': _enc(mask), 'key': key})


# ----------------------------------------------------------------------------- detect_threshold

def own_sigma_clip(vals, sigma=3.0, maxiters=10):
    x = np.array([v for v in vals if v == v], dtype=float)
    for _ in range(maxiters):
        med = np.median(x)
        sd = np.std(x)
        keep = (x >= med - sigma * sd) & (x <= med + sigma * sd)
        if keep.all():
            break
        x = x[keep]
    return x


def eval_threshold(data, nsigma, bkg, err, mask):
    from photutils.segmentation import detect_threshold
    viol = []
    try:
        got = detect_threshold(data, nsigma, background=bkg, error=err, mask=mask)
    except Exception as e:  # noqa: BLE001
        return [('threshold/exception', f'raised {e!r}')]
    h, w = data.shape
    if not (isinstance(got, np.ndarray) and got.shape == (h, w)):
        return [('threshold/shape', f'shape {getattr(got, "shape", None)}')]
    exact = bkg is not None and err is not None
    if bkg is None or err is None:
        sel = [data[y, x] for y in range(h) for x in range(w) if mask is None or not mask[y, x]]
        kept = own_sigma_clip(sel)
        if bkg is None:
            bkg = float(np.mean(kept))
        if err is None:
            err = float(np.std(kept))
    for y in range(h):
        for x in range(w):
            b = bkg[y, x] if isinstance(bkg, np.ndarray) else bkg
            e = err[y, x] if isinstance(err, np.ndarray) else err
            expv = float(b) + float(nsigma) * float(e)
            g = float(got[y, x])
            if exact:
                ok = (g == expv) or (g != g and expv != expv)
            else:
                ok = abs(g - expv) <= 1e-12 * max(1.0, abs(expv))
            if not ok:
                viol.append(('threshold/pixelwise-value' if exact else 'threshold/estimated-value',
                             f'threshold[{y},{x}]={g!r} expected {expv!r}'))
                return viol
    return viol


def do_threshold(ctx, data, nsigma, bkg, err, mask, tag):
    viol = eval_threshold(data, nsigma, bkg, err, mask)
    ctx.case(('thr', tag, data.tobytes(), repr(nsigma), _enc(bkg).__repr__(), _enc(err).__repr__(),
              None if mask is None else mask.tobytes()), nontrivial=True,
             contract='detect_threshold==background+nsigma*error')
    for key, what in viol:
        _chk(ctx, False, key, f'{what}; form={tag} nsigma={nsigma}',
             {'kind': 'threshold', 'data': _enc(data), 'nsigma': _encf(float(nsigma)), 'nsigma_int': isinstance(nsigma, int),
              'bkg': _enc(bkg), 'err': _enc(err), 'mask': _enc(mask), 'key': key})


# ----------------------------------------------------------------------------- stages

VALS = (0.0, 1.0, 2.0, math.nan)


def fixed_mask(h, w):
    m = np.zeros((h, w), bool)
    m[h // 2, w // 2] = True
    return None if m.all() else m


def perpixel_thr(h, w):
    """Per-pixel threshold mixing ties with the data values, NaN and infinities (deterministic)."""
    base = [1.0, 0.0, 2.0, 0.5, math.nan, 1.5, -math.inf, 1.0, math.inf]
    v = [base[(3 * i + i // w) % len(base)] for i in range(h * w)]
    return np.array(v, float).reshape(h, w)


def shapes_with(npx):
    return [(h, npx // h) for h in range(1, npx + 1) if npx % h == 0]


def stage_values(ctx):
    """(A) value-exhaustive small images."""
    sizes = (1, 2, 3, 4) if not ctx.thorough else (1, 2, 3, 4, 5)
    for npx in sizes:
        for (h, w) in shapes_with(npx):
            thrs = [0.0, 1.0, 2.0, 1.5, perpixel_thr(h, w)] if ctx.thorough else [0.0, 1.0, perpixel_thr(h, w)]
            masks = [None]
            fm = fixed_mask(h, w)
            if fm is not None:
                masks.append(fm)
            for vals in itertools.product(VALS, repeat=npx):
                data = np.array(vals, float).reshape(h, w)
                for thr in thrs:
                    for conn in (4, 8):
                        for npix in range(1, npx + 1):
                            for mask in masks:
                                do_detect(ctx, 'A', data, thr, npix, conn, mask)
    # 6-pixel shapes: 2x3, 3x2 (and 1x6, 6x1 when thorough)
    shp6 = [(2, 3), (3, 2)] + ([(1, 6), (6, 1)] if ctx.thorough else [])
    for (h, w) in shp6:
        if ctx.thorough:
            thrs = [1.0, 0.0, 1.5, perpixel_thr(h, w)]
            npixs = range(1, 7)
            masks = [None, fixed_mask(h, w)]
        else:
            thrs = [1.0]
            npixs = (1, 2, 3) if (h, w) == (2, 3) else (2,)
            masks = [None]
        for vals in itertools.product(VALS, repeat=6):
            data = np.array(vals, float).reshape(h, w)
            for thr in thrs:
                for conn in (4, 8):
                    for npix in npixs:
                        for mask in masks:
                            do_detect(ctx, 'A6', data, thr, npix, conn, mask)


def pattern_image(bits, h, w, thr, variant):
    """Image realising the above/below pattern `bits` w.r.t. thr (scalar or array) with boundary values."""
    t = thr if isinstance(thr, np.ndarray) else np.full((h, w), float(thr))
    out = np.empty((h, w), float)
    for i, b in enumerate(bits):
        y, x = divmod(i, w)
        tv = t[y, x]
        k = (i + variant) % 4
        if b:
            out[y, x] = (np.nextafter(tv, np.inf), tv + 1.0, math.inf, tv + 0.5)[k]
        else:
            out[y, x] = (tv, tv - 1.0, math.nan, -math.inf)[k] if variant < 4 else tv   # variant>=4: all ties
    return out


def stage_patterns(ctx):
    """(B) all 2^9 patterns on 3x3 with ties at the threshold; (C) 8-pixel shapes."""
    h = w = 3
    tarr = np.array([[1.0, -2.0, 0.0], [3.5, 1.0, 1e-300], [2.0, -0.0, 7.0]])
    m1 = np.zeros((3, 3), bool)
    m1[1, 1] = True
    m2 = np.zeros((3, 3), bool)
    m2[0, 1] = m2[1, 0] = m2[2, 2] = True
    variants = (0, 4) if not ctx.thorough else (0, 1, 2, 3, 4)
    for bits in itertools.product((0, 1), repeat=9):
        for vi, variant in enumerate(variants):
            for thr in (1.0, tarr):
                data = pattern_image(bits, h, w, thr, variant)
                for conn in (4, 8):
                    for npix in range(1, 10):
                        masks = (None, m1) if not ctx.thorough else (None, m1, m2)
                        if not ctx.thorough and (vi == 1 or isinstance(thr, np.ndarray)):
                            masks = (None,)
                        if not ctx.thorough and vi == 1 and isinstance(thr, np.ndarray):
                            continue
                        for mask in masks:
                            do_detect(ctx, 'B', data, thr, npix, conn, mask)
    for (hh, ww) in ((1, 8), (8, 1), (2, 4), (4, 2)):
        tarr8 = np.arange(8, dtype=float).reshape(hh, ww) - 3.0
        fm = fixed_mask(hh, ww)
        for bits in itertools.product((0, 1), repeat=8):
            for thr in ((1.0, tarr8) if ctx.thorough else (1.0,)):
                data = pattern_image(bits, hh, ww, thr, 0)
                for conn in (4, 8):
                    for npix in range(1, 9):
                        for mask in ((None, fm) if ctx.thorough else (None,)):
                            do_detect(ctx, 'C', data, thr, npix, conn, mask)
    if ctx.thorough:   # 8-pixel shapes over the value set {0,2,NaN}
        for (hh, ww) in ((2, 4), (4, 2)):
            for vals in itertools.product((0.0, 2.0, math.nan), repeat=8):
                data = np.array(vals, float).reshape(hh, ww)
                for conn in (4, 8):
                    for npix in (1, 2, 3, 5):
                        do_detect(ctx, 'C3', data, 1.0, npix, conn, None)


def stage_masks(ctx):
    """(D) all (pattern, mask) pairs on 2x2 and 2x3."""
    for (h, w) in ((2, 2), (2, 3)) + (((3, 2),) if ctx.thorough else ()):
        n = h * w
        for bits in itertools.product((0, 1), repeat=n):
            if not any(bits):
                continue
            data = np.array([2.0 if b else 1.0 for b in bits]).reshape(h, w)   # below = exact tie
            for mb in itertools.product((False, True), repeat=n):
                if all(mb):
                    continue
                mask = np.array(mb, bool).reshape(h, w)
                for conn in (4, 8):
                    for npix in (((1, 2, 3) if n == 4 else (1, 2)) if not ctx.thorough else range(1, n + 1)):
                        do_detect(ctx, 'D', data, 1.0, npix, conn, mask)


def stage_int(ctx):
    """(E) integer images, integer thresholds (ties), integer per-pixel thresholds."""
    for (h, w) in ((2, 2), (1, 3), (2, 3) if ctx.thorough else (3, 1)):
        n = h * w
        tarr = (np.arange(n).reshape(h, w) % 3).astype(np.int64)
        for vals in itertools.product((0, 1, 2), repeat=n):
            for dt in (np.int32, np.uint8):
                data = np.array(vals, dtype=dt).reshape(h, w)
                for thr in (1, 0, tarr):
                    for conn in (4, 8):
                        for npix in range(1, n + 1):
                            do_detect(ctx, 'E', data, thr, npix, conn, None)


def stage_random(ctx):
    """(F) seeded random plateau images with many components of mixed sizes."""
    rng = ctx.rng
    ncase = 400 if ctx.thorough else 40
    for _ in range(ncase):
        h = int(rng.integers(1, 15))
        w = int(rng.integers(1, 18))
        p = rng.choice([0.25, 0.4, 0.55, 0.7])
        levels = np.array([0.0, 1.0, 1.0, 2.0, 3.0])
        data = np.where(rng.random((h, w)) < p, rng.choice(levels[2:], size=(h, w)), rng.choice(levels[:2], size=(h, w)))
        data = data.astype(float)
        k = rng.random((h, w))
        data[k < 0.04] = math.nan
        data[(k >= 0.04) & (k < 0.06)] = math.inf
        data[(k >= 0.06) & (k < 0.08)] = -math.inf
        if rng.random() < 0.5:
            thr = 1.0
        else:
            thr = rng.choice([0.0, 1.0, 1.0, 2.0, math.nan, 1.5], size=(h, w)).astype(float)
        mask = None
        if rng.random() < 0.5:
            mask = rng.random((h, w)) < 0.2
            if mask.all():
                mask = None
        for conn in (4, 8):
            for npix in (1, 2, 3, int(rng.integers(4, 9))):
                do_detect(ctx, 'F', data, thr, npix, conn, mask)
                if npix == 2:
                    do_detect(ctx, 'F', data, thr, npix, conn, mask, finder=True)


def stage_finder(ctx):
    """(G) SourceFinder(deblend=False) on all 3x3 patterns."""
    m1 = np.zeros((3, 3), bool)
    m1[0, 0] = True
    for bits in itertools.product((0, 1), repeat=9):
        data = pattern_image(bits, 3, 3, 1.0, 0)
        for conn in (4, 8):
            for npix in ((1, 3) if not ctx.thorough else (1, 2, 3, 5)):
                do_detect(ctx, 'G', data, 1.0, npix, conn, None, finder=True)
            if ctx.thorough:
                do_detect(ctx, 'G', data, 1.0, 2, conn, m1, finder=True)


def stage_threshold(ctx):
    """(H) detect_threshold == background + nsigma*error, scalar and array forms."""
    rng = ctx.rng
    shapes = ((1, 1), (2, 3), (4, 5))
    specials = [0.0, -0.0, 1.0, -1.5, 1e-300, 1e300, 0.1, math.inf, -math.inf, math.nan, 3.0000000000000004]
    for (h, w) in shapes:
        data = rng.normal(size=(h, w))
        for nsigma in (0, 1, 2.5, -1.0, 0.1, 3):
            for bs in (0.0, 0.1, -2.0, 5, np.float64(1.25), np.float32(0.3)):
                for es in (1.0, 0.3, 0, 2, np.float64(0.7)):
                    do_threshold(ctx, data, nsigma, bs, es, None, 'scalar/scalar')
            for rep in range(3 if not ctx.thorough else 12):
                barr = rng.choice(specials, size=(h, w)).astype(float) if rep % 2 else rng.normal(size=(h, w))
                earr = rng.choice(specials, size=(h, w)).astype(float) if rep % 3 == 0 else np.abs(rng.normal(size=(h, w)))
                do_threshold(ctx, data, nsigma, barr, 0.3, None, 'array/scalar')
                do_threshold(ctx, data, nsigma, 0.1, earr, None, 'scalar/array')
                do_threshold(ctx, data, nsigma, barr, earr, None, 'array/array')
                do_threshold(ctx, data, nsigma, barr.astype(np.float32), earr, None, 'f32array/array')
                do_threshold(ctx, data, nsigma, (barr * 0 + rep).astype(np.int64), earr, None, 'intarray/array')
        # the image itself in other representations: the threshold is a property of background and
        # error, never of the image dtype (integer counts with a fractional background)
        for dt in (np.int64, np.uint16, np.int16, np.float32):
            idata = (np.abs(data) * 40 + 3).astype(dt)
            do_threshold(ctx, idata, 2.5, 16.7, 0.2, None, f'{np.dtype(dt).name}-image/scalar/scalar')
            do_threshold(ctx, idata, 3, rng.normal(10.3, 0.4, size=(h, w)), 1.75, None,
                         f'{np.dtype(dt).name}-image/array/scalar')
    # estimated background / error (sigma-clipped statistics), with and without a mask
    for rep in range(10 if not ctx.thorough else 60):
        h, w = int(rng.integers(4, 12)), int(rng.integers(4, 12))
        data = rng.normal(5.0, 2.0, size=(h, w))
        nout = int(rng.integers(0, 4))
        for _ in range(nout):
            data[int(rng.integers(h)), int(rng.integers(w))] = rng.choice([60.0, -50.0, 200.0])
        mask = None
        if rep % 2:
            mask = rng.random((h, w)) < 0.2
        do_threshold(ctx, data, 2.0, None, None, mask, 'estimated/estimated')
        do_threshold(ctx, data, 1.5, None, 0.5, mask, 'estimated/scalar')
        do_threshold(ctx, data, 3, 0.25, None, mask, 'scalar/estimated')


def run(ctx):
    _CAP.clear()
    stage_threshold(ctx)
    stage_finder(ctx)
    stage_random(ctx)
    stage_int(ctx)
    stage_masks(ctx)
    stage_patterns(ctx)
    stage_values(ctx)
    ctx.note(f'union-find component cache entries: {len(_COMP_CACHE)}')


def replay(case):
    try:
        if case['kind'] in ('detect', 'finder'):
            viol, _ = eval_detect(_dec(case['data']), _dec(case['thr']), case['npixels'], case['conn'],
                                  _dec(case['mask']), finder=case['kind'] == 'finder')
        else:
            ns = _decf(case['nsigma'])
            if case.get('nsigma_int'):
                ns = int(ns)
            viol = eval_threshold(_dec(case['data']), ns, _dec(case['bkg']), _dec(case['err']), _dec(case['mask']))
    except Exception as e:  # noqa: BLE001
        return 'error', repr(e), None
    keys = [k for k, _ in viol]
    if case.get('key') in keys or (viol and case.get('key') is None):
        return 'confirmed', '; '.join(f'{k}: {w}' for k, w in viol), keys
    if viol:
        return 'confirmed', 'different violation: ' + '; '.join(f'{k}: {w}' for k, w in viol), keys
    return 'spurious', 'no violation on replay', []
