"""C07 - SourceCatalog measurements equal their definitions on the segment pixels.

Bounded run-time contract driver (engine E4).  The real ``SourceCatalog`` is evaluated on small
scenes and every listed column is compared with a definition oracle written from the property
statement / the public docstrings: explicit loops over the pixels that carry the label, are not
masked and are finite, in exact rational arithmetic (``fractions.Fraction``).
"""
import hashlib
import math
from fractions import Fraction as Fr

import numpy as np

BOUNDS = (
    "Images of shape (1,1),(1,5),(4,1),(2,2),(3,3),(5,7),(8,8),(9,12),(12,12) [quick: a subset per "
    "template]; segmentation maps from 12 templates (touching strips filling the image, nested "
    "rings, isolated/adjacent single pixels, border-hugging frames, 2-label checkerboard (both "
    "labels disconnected and sharing one bounding box), U-shape enclosing another label, "
    "horizontal/vertical/diagonal/slope-2 lines, full-image label, random Voronoi maps with 1-6 "
    "labels) with consecutive and non-consecutive labels (up to 1000); data: multiples of 1/8 in "
    "[-2,8] (with many ties), normal floats, all-negative, all-zero, integer dtype, with NaN/+inf/"
    "-inf pixels; masks: none, random 25%, a row+column cut through the image, one label fully "
    "masked, one label fully non-finite; optional error (non-finite under masked pixels), "
    "background (4096 under masked pixels), independent convolved_data (negative / non-finite "
    "pixels), detection_cat built from independent data/convolved_data/mask, optional units (Jy); "
    "localbkg_width=0.  quick: 12 random configurations per (template, shape); thorough: up to 150 (time budget 480 s).  "
    "Columns: segment_flux, segment_fluxerr, area, segment_area, bbox(+_xmin/_xmax/_ymin/_ymax), "
    "_bbox_corner_ll/ul/lr/ur, min/max_value, (cutout_)min/maxval_index (+x/y), moments, "
    "moments_central, cutout_centroid, centroid, x/ycentroid, covariance(+covar_sig*), "
    "covariance_eigvals, semimajor/semiminor_sigma, orientation, eccentricity, elongation, "
    "ellipticity, cxx/cxy/cyy, background_sum/mean/centroid, and to_table() of the scalar columns.  "
    "Tolerances: integer columns, min/max and their indices exact; sums: |d| <= 1e-12*sum|v|; "
    "centroid 1e-10 abs; raw moments 1e-11 rel. to sum|terms|; covariance 1e-9; eigenvalue-derived shape "
    "parameters 1e-7 relative (eccentricity compared as e^2, 1e-8 abs; orientation modulo 180 deg, "
    "1e-5 deg, skipped when anisotropy < 1e-6 of the trace); covariance-derived checks skipped "
    "when the exact determinant is within 1e-9 of the 1/144 regularisation threshold.  Row "
    "locality comparisons (perturbation outside the footprint, label renumbering, removal of the "
    "other labels, row reordering) are exact (bit-identical, NaN == NaN)."
)
RULE = (
    "Scenes are enumerated template x shape x seeded random configuration (ctx.rng); a case is one "
    "(scene, label) row (key = md5 of the scene + label + contract), non-trivial unless the scene "
    "has no usable pixel for the contract (noted per contract).  Locality cases are one (scene, "
    "label, variant) triple."
)

UNIT_COLS = ('segment_flux', 'segment_fluxerr', 'min_value', 'max_value', 'background_sum',
             'background_mean', 'background_centroid')

SCALAR_COLS = ('segment_flux', 'segment_fluxerr', 'area', 'segment_area', 'bbox_xmin', 'bbox_xmax',
               'bbox_ymin', 'bbox_ymax', 'min_value', 'max_value', 'minval_xindex',
               'minval_yindex', 'maxval_xindex', 'maxval_yindex', 'xcentroid', 'ycentroid',
               'semimajor_sigma', 'semiminor_sigma', 'orientation', 'eccentricity', 'elongation',
               'ellipticity', 'cxx', 'cxy', 'cyy', 'covar_sigx2', 'covar_sigy2', 'covar_sigxy',
               'background_sum', 'background_mean', 'background_centroid')
VEC_COLS = ('minval_index', 'maxval_index', 'cutout_minval_index', 'cutout_maxval_index',
            'centroid', 'cutout_centroid', 'covariance', 'covariance_eigvals', 'moments',
            'moments_central', '_bbox_corner_ll', '_bbox_corner_ul', '_bbox_corner_lr',
            '_bbox_corner_ur')
ALL_COLS = SCALAR_COLS + VEC_COLS + ('bbox',)

NAN = float('nan')


# --------------------------------------------------------------------------- scene encoding
def enc(a):
    if a is None:
        return None
    a = np.asarray(a)
    if a.dtype == bool:
        return a.astype(int).tolist()
    if a.dtype.kind in 'iu':
        return a.tolist()
    out = []
    for row in a.tolist():
        out.append([v if math.isfinite(v) else ('nan' if v != v else ('inf' if v > 0 else '-inf'))
                    for v in row])
    return out


def dec(lst):
    if lst is None:
        return None
    return np.array([[float(v) for v in row] for row in lst], dtype=float)


def decmask(lst, shape):
    if lst is None:
        return np.zeros(shape, dtype=bool)
    return np.array(lst, dtype=int).astype(bool)


def scene_id(sc):
    return hashlib.md5(repr(sorted(sc.items(), key=lambda kv: kv[0])).encode()).hexdigest()[:16]


# --------------------------------------------------------------------------- real code
def build(sc):
    import astropy.units as u
    from photutils.segmentation import SegmentationImage, SourceCatalog

    seg = np.array(sc['seg'], dtype=int)
    segm = SegmentationImage(seg)
    unit = u.Jy if sc.get('unit') else None

    def q(a):
        return a if (a is None or unit is None) else a * unit

    data = dec(sc['data'])
    if sc.get('int_data'):
        data = data.astype(int)
    mask = None if sc.get('mask') is None else decmask(sc['mask'], seg.shape)
    detcat = None
    det = sc.get('det')
    if det:
        dmask = None if det.get('mask') is None else decmask(det['mask'], seg.shape)
        detcat = SourceCatalog(q(dec(det['data'])), segm, convolved_data=q(dec(det.get('conv'))),
                               mask=dmask)
    return SourceCatalog(q(data), segm, convolved_data=q(dec(sc.get('conv'))),
                         error=q(dec(sc.get('error'))), mask=mask,
                         background=q(dec(sc.get('bkg'))), detection_cat=detcat)


def _plain(v):
    return v.value if hasattr(v, 'unit') and hasattr(v, 'value') else v


def observe(cat, cols=ALL_COLS):
    """{col: [per-source tuple of floats]} plus 'label'; values read from the real catalog."""
    n = cat.nlabels
    scalar = cat.isscalar
    out = {'label': [int(v) for v in np.atleast_1d(cat.labels)]}
    units = {}
    for col in cols:
        try:
            v = getattr(cat, col)
        except Exception as exc:  # noqa: BLE001
            out[col] = ('EXC', repr(exc)[:200])
            continue
        if col == 'bbox':
            boxes = [v] if scalar else list(v)
            out[col] = [(float(b.ixmin), float(b.ixmax), float(b.iymin), float(b.iymax))
                        for b in boxes]
            continue
        if hasattr(v, 'unit'):
            units[col] = str(v.unit)
        a = np.asarray(_plain(v), dtype=float)
        if scalar and not col.startswith('_'):
            a = a[np.newaxis]
        if a.shape[0] != n:
            out[col] = ('EXC', f'first axis {a.shape} != nlabels {n}')
            continue
        out[col] = [tuple(np.ravel(a[i]).tolist()) for i in range(n)]
    out['_units'] = units
    return out


# --------------------------------------------------------------------------- definition oracle
def _weights(P, conv, mdata, mmask, strict):
    W = {}
    for (y, x) in P:
        v = float(conv[y, x])
        if mmask[y, x] or not math.isfinite(v) or v < 0:
            continue
        if strict and not math.isfinite(float(mdata[y, x])):
            continue
        if v > 0:
            W[(y, x)] = Fr(v)
    return W


def _moment_block(W, xmin, ymin):
    """Exact moments / centroid / regularised covariance from pixel weights W (cutout coords)."""
    r = {}
    raw = [[Fr(0)] * 4 for _ in range(4)]
    rawabs = [[Fr(0)] * 4 for _ in range(4)]
    for (y, x), w in W.items():
        yy, xx = y - ymin, x - xmin
        for p in range(4):
            for q_ in range(4):
                t = w * (yy ** p) * (xx ** q_)
                raw[p][q_] += t
                rawabs[p][q_] += abs(t)
    r['moments'] = tuple(float(raw[p][q_]) for p in range(4) for q_ in range(4))
    r['moments_scale'] = tuple(float(rawabs[p][q_]) for p in range(4) for q_ in range(4))
    m00 = raw[0][0]
    if m00 == 0:
        r['m00zero'] = True
        for k in ('cutout_centroid',):
            r[k] = (NAN, NAN)
        r['covariance'] = (NAN,) * 4
        for k in ('semimajor_sigma', 'semiminor_sigma', 'orientation', 'ecc2', 'elongation',
                  'ellipticity', 'cxx', 'cxy', 'cyy'):
            r[k] = NAN
        r['covariance_eigvals'] = (NAN, NAN)
        r['thin'] = False
        r['boundary'] = False
        r['aniso_small'] = False
        return r
    r['m00zero'] = False
    cx = raw[0][1] / m00
    cy = raw[1][0] / m00
    r['cutout_centroid'] = (float(cx), float(cy))
    r['_cxcy'] = (cx, cy)
    cen = [[Fr(0)] * 4 for _ in range(4)]
    cenabs = [[Fr(0)] * 4 for _ in range(4)]
    for (y, x), w in W.items():
        dy, dx = (y - ymin) - cy, (x - xmin) - cx
        for p in range(4):
            for q_ in range(4):
                if p + q_ > 3:   # keep the exact arithmetic cheap; orders <= 3 are what is documented
                    continue
                t = w * (dy ** p) * (dx ** q_)
                cen[p][q_] += t
                cenabs[p][q_] += abs(t)
    r['moments_central'] = [[float(cen[p][q_]) for q_ in range(4)] for p in range(4)]
    r['moments_central_scale'] = [[float(cenabs[p][q_]) for q_ in range(4)] for p in range(4)]
    a = cen[0][2] / m00     # sigma_x^2
    b = cen[1][1] / m00     # sigma_xy
    c = cen[2][0] / m00     # sigma_y^2
    lim = Fr(1, 144)
    d12 = Fr(1, 12)
    det = a * c - b * b
    r['thin'] = det < lim
    boundary = False

    def near(dv, aa, cc, bb):
        if abs(dv - lim) < Fr(1, 10 ** 9):
            # exactly the threshold with a == c == 1/12, b == 0 is reproducible in floats
            return not (dv == lim and bb == 0 and aa == d12 and cc == d12)
        return False

    boundary |= near(det, a, c, b)
    while det < lim:
        a += d12
        c += d12
        det = a * c - b * b
        boundary |= near(det, a, c, b)
    r['boundary'] = boundary
    af, bf, cf, df = float(a), float(b), float(c), float(det)
    r['covariance'] = (af, bf, bf, cf)
    half_tr = 0.5 * (af + cf)
    disc = math.sqrt((0.5 * (af - cf)) ** 2 + bf * bf)
    l1 = half_tr + disc
    l2 = df / l1
    r['covariance_eigvals'] = (l1, l2)
    r['semimajor_sigma'] = math.sqrt(l1)
    r['semiminor_sigma'] = math.sqrt(l2)
    r['aniso_small'] = (2 * disc) < 1e-6 * (af + cf)
    r['orientation'] = math.degrees(0.5 * math.atan2(2 * bf, af - cf))
    r['ecc2'] = 1.0 - l2 / l1
    r['elongation'] = math.sqrt(l1 / l2)
    r['ellipticity'] = 1.0 - math.sqrt(l2 / l1)
    r['cxx'] = cf / df
    r['cyy'] = af / df
    r['cxy'] = -2.0 * bf / df
    return r


def _bilinear(bkg, xc, yc):
    ny, nx = bkg.shape
    x0 = int(math.floor(xc))
    y0 = int(math.floor(yc))
    fx, fy = xc - x0, yc - y0

    def px(y, x):
        return float(bkg[min(max(y, 0), ny - 1), min(max(x, 0), nx - 1)])

    val = 0.0
    for (yy, wy) in ((y0, 1 - fy), (y0 + 1, fy)):
        for (xx, wx) in ((x0, 1 - fx), (x0 + 1, fx)):
            if wy * wx != 0.0:
                val += wy * wx * px(yy, xx)
    return val


def oracle(sc):
    """Expected rows, {label: {col: value}}; plain loops over pixels, exact rational sums."""
    seg = np.array(sc['seg'], dtype=int)
    ny, nx = seg.shape
    data = dec(sc['data'])
    mask = decmask(sc.get('mask'), seg.shape)
    err = dec(sc.get('error'))
    bkg = dec(sc.get('bkg'))
    conv = dec(sc.get('conv'))
    det = sc.get('det')
    if det:
        mdata = dec(det['data'])
        mconv = dec(det.get('conv'))
        mmask = decmask(det.get('mask'), seg.shape)
    else:
        mdata, mconv, mmask = data, conv, mask
    mc = mconv if mconv is not None else mdata
    labels = sorted({int(v) for v in seg.ravel().tolist()} - {0})
    rows = {}
    for L in labels:
        P = [(y, x) for y in range(ny) for x in range(nx) if seg[y, x] == L]   # row-major
        ys = [p[0] for p in P]
        xs = [p[1] for p in P]
        ymin, ymax, xmin, xmax = min(ys), max(ys), min(xs), max(xs)
        r = {'bbox_xmin': xmin, 'bbox_xmax': xmax, 'bbox_ymin': ymin, 'bbox_ymax': ymax,
             'bbox': (xmin, xmax + 1, ymin, ymax + 1),
             '_bbox_corner_ll': (xmin - 0.5, ymin - 0.5), '_bbox_corner_ul': (xmin - 0.5, ymax + 0.5),
             '_bbox_corner_lr': (xmax + 0.5, ymin - 0.5), '_bbox_corner_ur': (xmax + 0.5, ymax + 0.5),
             'segment_area': len(P)}
        G = [p for p in P if not mask[p] and math.isfinite(float(data[p]))]
        GM = [p for p in P if not mmask[p] and math.isfinite(float(mdata[p]))]
        r['n_good'] = len(G)
        r['n_good_morph'] = len(GM)
        r['area'] = float(len(GM)) if GM else NAN
        if G:
            r['segment_flux'] = float(sum(Fr(float(data[p])) for p in G))
            r['flux_scale'] = float(sum(abs(Fr(float(data[p]))) for p in G))
            vmin = min(float(data[p]) for p in G)
            vmax = max(float(data[p]) for p in G)
            pmin = next(p for p in G if float(data[p]) == vmin)    # first occurrence, row-major
            pmax = next(p for p in G if float(data[p]) == vmax)
            r['min_value'], r['max_value'] = vmin, vmax
            r['minval_index'] = (pmin[0], pmin[1])
            r['maxval_index'] = (pmax[0], pmax[1])
            r['cutout_minval_index'] = (pmin[0] - ymin, pmin[1] - xmin)
            r['cutout_maxval_index'] = (pmax[0] - ymin, pmax[1] - xmin)
        else:
            r['segment_flux'] = NAN
            r['flux_scale'] = 0.0
            r['min_value'] = r['max_value'] = NAN
            for k in ('minval_index', 'maxval_index', 'cutout_minval_index', 'cutout_maxval_index'):
                r[k] = (NAN, NAN)
        r['minval_yindex'], r['minval_xindex'] = r['minval_index']
        r['maxval_yindex'], r['maxval_xindex'] = r['maxval_index']
        # quadrature sum of the errors
        if err is None or not G:
            r['segment_fluxerr'] = NAN
        else:
            ev = [float(err[p]) for p in G]
            if all(math.isfinite(v) for v in ev):
                r['segment_fluxerr'] = math.sqrt(float(sum(Fr(v) ** 2 for v in ev)))
            else:
                s = 0.0
                for v in ev:
                    s += v * v
                r['segment_fluxerr'] = math.sqrt(s) if s == s else NAN
        # background sums
        if bkg is None or not G:
            r['background_sum'] = r['background_mean'] = NAN
            r['bkg_scale'] = 0.0
        else:
            bv = [float(bkg[p]) for p in G]
            if all(math.isfinite(v) for v in bv):
                tot = sum(Fr(v) for v in bv)
                r['background_sum'] = float(tot)
                r['background_mean'] = float(tot / len(bv))
                r['bkg_scale'] = float(sum(abs(Fr(v)) for v in bv))
            else:
                s = 0.0
                for v in bv:
                    s += v
                r['background_sum'] = s
                r['background_mean'] = s / len(bv)
                r['bkg_scale'] = float('inf')
        # moments (statement: pixels of the label that are unmasked and finite; convolved data if
        # given; negative values set to zero)
        Ws = _weights(P, mc, mdata, mmask, strict=True)
        Wa = _weights(P, mc, mdata, mmask, strict=False)
        ms = _moment_block(Ws, xmin, ymin)
        r['alt'] = None
        if Wa != Ws:
            r['alt'] = _moment_block(Wa, xmin, ymin)
            _finish_centroid(r['alt'], xmin, ymin, bkg)
        _finish_centroid(ms, xmin, ymin, bkg)
        r.update(ms)
        rows[L] = r
    return rows


def _finish_centroid(ms, xmin, ymin, bkg):
    cx, cy = ms['cutout_centroid']
    ms['centroid'] = (cx + xmin, cy + ymin)
    ms['xcentroid'], ms['ycentroid'] = ms['centroid']
    cov = ms['covariance']
    ms['covar_sigx2'], ms['covar_sigxy'], ms['covar_sigy2'] = cov[0], cov[1], cov[3]
    if bkg is None or ms['m00zero']:
        ms['background_centroid'] = NAN
        ms['background_centroid_swapped'] = NAN
    else:
        if '_cxcy' in ms:
            xc = float(ms['_cxcy'][0] + xmin)
            yc = float(ms['_cxcy'][1] + ymin)
        else:
            xc, yc = ms['centroid']
        ms['background_centroid'] = _bilinear(bkg, xc, yc)
        ms['background_centroid_swapped'] = _bilinear(bkg, yc, xc)   # value at (row=x, col=y)


# --------------------------------------------------------------------------- comparison
def _close(got, exp, tol, scale=None):
    """NaN-aware closeness of two equal-length tuples; tol relative to max(|exp|, scale, tiny)."""
    if len(got) != len(exp):
        return False
    for i, (g, e) in enumerate(zip(got, exp)):
        g = float(g)
        e = float(e)
        if e != e:
            if g == g:
                return False
            continue
        if g != g:
            return False
        if math.isinf(e) or math.isinf(g):
            if g != e:
                return False
            continue
        if tol == 0:
            if g != e:
                return False
            continue
        s = abs(e)
        if scale is not None:
            sc_ = scale[i] if isinstance(scale, (tuple, list)) else scale
            s = max(s, sc_)
        if abs(g - e) > tol * max(s, 1e-300) and abs(g - e) > 0:
            return False
    return True


def _tup(v):
    return tuple(v) if isinstance(v, (tuple, list)) else (v,)


class Reporter:
    """Forwards to ctx.check, keeping at most `cap` recorded failures per key."""

    def __init__(self, ctx=None, cap=3):
        self.ctx = ctx
        self.cap = cap
        self.counts = {}
        self.records = []

    def fail(self, key, what, case):
        self.counts[key] = self.counts.get(key, 0) + 1
        if self.counts[key] <= self.cap:
            self.records.append((key, what))
            if self.ctx is not None:
                self.ctx.check(False, key=key, what=what, case=dict(case, key=key))


EXACT_COLS = ('bbox_xmin', 'bbox_xmax', 'bbox_ymin', 'bbox_ymax', 'bbox', '_bbox_corner_ll',
              '_bbox_corner_ul', '_bbox_corner_lr', '_bbox_corner_ur', 'segment_area', 'area',
              'min_value', 'max_value', 'minval_index', 'maxval_index', 'cutout_minval_index',
              'cutout_maxval_index', 'minval_xindex', 'minval_yindex', 'maxval_xindex',
              'maxval_yindex')
CENTROID_COLS = ('cutout_centroid', 'centroid', 'xcentroid', 'ycentroid')
COV_COLS = ('covariance', 'covar_sigx2', 'covar_sigy2', 'covar_sigxy')
SHAPE_COLS = ('covariance_eigvals', 'semimajor_sigma', 'semiminor_sigma', 'elongation',
              'ellipticity', 'cxx', 'cxy', 'cyy')


def check_scene(sc, rep, ctx=None, tag=''):
    """Compare every column of every row of the real catalog with the oracle."""
    sid = scene_id(sc)
    exp_rows = oracle(sc)
    labels = sorted(exp_rows)

    def case_of(L, col):
        return {'kind': 'oracle', 'scene': sc, 'label': L, 'col': col}

    try:
        cat = build(sc)
        obs = observe(cat)
    except Exception as exc:  # noqa: BLE001
        rep.fail('catalog/exception', f'building/evaluating the catalog raised {exc!r} [{tag}]',
                 {'kind': 'oracle', 'scene': sc, 'label': None, 'col': None})
        return None, None
    if obs['label'] != labels:
        rep.fail('label/order', f'labels {obs["label"]} != sorted unique labels {labels} [{tag}]',
                 case_of(None, 'label'))
        return obs, exp_rows
    has_det = bool(sc.get('det'))
    for i, L in enumerate(labels):
        e = exp_rows[L]
        alt = e['alt']

        def got(col):
            return obs[col][i] if not (isinstance(obs[col], tuple) and obs[col][0] == 'EXC') else None

        def count(contract, nontrivial=True):
            if ctx is not None:
                ctx.case((sid, L, contract), nontrivial=nontrivial, contract=contract,
                         sample={'shape': list(np.shape(sc['seg'])), 'label': L, 'contract': contract,
                                 'n_pixels': e['segment_area'], 'n_unmasked': e['n_good']})

        def cmp(col, expv, tol, scale=None, key=None, contract=None):
            if isinstance(obs[col], tuple) and obs[col][0] == 'EXC':
                rep.fail(f'{col}/exception', f'{col} raised {obs[col][1]} [{tag}]', case_of(L, col))
                return False
            g = obs[col][i]
            ok = _close(g, _tup(expv), tol, scale)
            if not ok:
                k = key
                if k is None:
                    ev = _tup(expv)
                    if all(v != v for v in map(float, ev)) and any(float(v) == float(v) for v in g):
                        k = f'{col}/not-nan-for-masked-or-empty-source'
                    else:
                        k = f'{col}/value'
                rep.fail(k, f'{col} of label {L}: got {g}, definition gives {_tup(expv)} '
                            f'(pixels={e["segment_area"]}, unmasked={e["n_good"]}) [{tag}]',
                         case_of(L, col))
            return ok

        # ---- integer / order-statistics chain (exact)
        count('bbox+area+extrema(exact)')
        for col in EXACT_COLS:
            cmp(col, e[col], 0)
        # ---- sums
        count('flux/err/background sums', nontrivial=e['n_good'] > 0)
        g = got('segment_flux')
        if (has_det and g is not None and g[0] != g[0] and e['segment_flux'] == e['segment_flux']
                and e['n_good_morph'] == 0):
            rep.fail('segment_flux/nan-when-source-masked-in-detection-cat',
                     f'segment_flux of label {L} is NaN although {e["n_good"]} unmasked finite pixels '
                     f'carry the label (sum {e["segment_flux"]}); the source is fully masked only in '
                     f'the detection catalog [{tag}]', case_of(L, 'segment_flux'))
        else:
            cmp('segment_flux', e['segment_flux'], 1e-12, e['flux_scale'])
        cmp('segment_fluxerr', e['segment_fluxerr'], 1e-13)
        cmp('background_sum', e['background_sum'], 1e-12, e['bkg_scale'])
        cmp('background_mean', e['background_mean'], 1e-12,
            e['bkg_scale'] / max(e['n_good'], 1))
        # ---- moments / centroid
        use = e
        defect_b = False
        if alt is not None:
            gc = got('cutout_centroid')
            gm = got('moments')
            s_ok = gc is not None and _close(gc, e['cutout_centroid'], 1e-10, 1.0) and \
                _close(gm, e['moments'], 1e-11, e['moments_scale'])
            a_ok = gc is not None and _close(gc, alt['cutout_centroid'], 1e-10, 1.0) and \
                _close(gm, alt['moments'], 1e-11, alt['moments_scale'])
            if not s_ok and a_ok:
                defect_b = True
                use = alt
                rep.fail('moments/nonfinite-data-pixel-not-masked-in-convolved',
                         f'label {L}: moments/centroid include pixels whose data value is non-finite '
                         f'(automatically masked) because convolved_data is finite there: centroid '
                         f'{gc} vs {e["cutout_centroid"]} on the unmasked finite pixels '
                         f'(unmasked={e["n_good_morph"]}) [{tag}]', case_of(L, 'cutout_centroid'))
        count('moments+centroid', nontrivial=not use['m00zero'])
        cmp('moments', use['moments'], 1e-11, use['moments_scale'])
        for col in CENTROID_COLS:
            cmp(col, use[col], 1e-10, 1.0)
        if not use['m00zero'] and got('moments_central') is not None:
            gmc = got('moments_central')
            em, es = use['moments_central'], use['moments_central_scale']
            okc = True
            for p in range(4):
                for q_ in range(4):
                    if p + q_ > 3:
                        continue
                    if not _close((gmc[4 * p + q_],), (em[p][q_],), 1e-9, max(es[p][q_], 1e-30)):
                        okc = False
            if not okc:
                rep.fail('moments_central/value', f'moments_central of label {L}: got {gmc}, '
                         f'definition {em} [{tag}]', case_of(L, 'moments_central'))
        # ---- background at the centroid
        count('background_centroid', nontrivial=sc.get('bkg') is not None and not use['m00zero'])
        gb = got('background_centroid')
        eb = use['background_centroid']
        bscale = 1.0
        if sc.get('bkg') is not None:
            bscale = float(np.nanmax(np.abs(dec(sc['bkg']))))
        if gb is not None and not _close(gb, (eb,), 1e-9, bscale):
            if _close(gb, (use['background_centroid_swapped'],), 1e-9, bscale):
                rep.fail('background_centroid/xy-swapped',
                         f'background_centroid of label {L}: got {gb[0]}, bilinear value at the '
                         f'centroid (x={use["xcentroid"]}, y={use["ycentroid"]}) is {eb}; the value '
                         f'returned is the background at (x={use["ycentroid"]}, y={use["xcentroid"]}) '
                         f'[{tag}]', case_of(L, 'background_centroid'))
            else:
                cmp('background_centroid', eb, 1e-9, bscale)
        elif gb is None:
            cmp('background_centroid', eb, 1e-9, bscale)
        # ---- covariance and shape
        if use['boundary']:
            count('covariance+shape', nontrivial=False)
            continue
        count('covariance+shape', nontrivial=not use['m00zero'])
        gcov = got('covariance')
        if (gcov is not None and use['thin'] and all(v != v for v in gcov)
                and all(v == v for v in use['covariance'])):
            rep.fail('covariance/thin-source-nan-from-rounded-negative-det',
                     f'label {L}: covariance (and every shape parameter) is NaN for a source whose '
                     f'exact second-moment determinant is >= 0 and below 1/144 (thin/collinear); the '
                     f'documented 1/12 regularisation gives {use["covariance"]} [{tag}]',
                     case_of(L, 'covariance'))
            continue
        cov_ok = True
        for col in COV_COLS:
            cov_ok &= cmp(col, use[col], 1e-9, 1.0)
        if not cov_ok:
            continue
        for col in SHAPE_COLS:
            cmp(col, use[col], 1e-7, 1e-3)
        ge = got('eccentricity')
        if ge is not None:
            g2 = tuple(v * v if v == v else v for v in ge)
            if not _close(g2, (use['ecc2'],), 1e-8, 1.0):
                rep.fail('eccentricity/value', f'eccentricity of label {L}: got {ge}, definition '
                         f'sqrt({use["ecc2"]}) [{tag}]', case_of(L, 'eccentricity'))
        go = got('orientation')
        if go is not None:
            eo = use['orientation']
            if eo != eo:
                if go[0] == go[0]:
                    rep.fail('orientation/not-nan-for-masked-or-empty-source',
                             f'orientation of label {L}: got {go}, expected NaN [{tag}]',
                             case_of(L, 'orientation'))
            elif go[0] != go[0] or not (-90.0 - 1e-9 <= go[0] <= 90.0 + 1e-9):
                rep.fail('orientation/value', f'orientation of label {L}: got {go}, expected {eo} '
                         f'[{tag}]', case_of(L, 'orientation'))
            elif not use['aniso_small']:
                d = (go[0] - eo + 90.0) % 180.0 - 90.0
                if abs(d) > 1e-5:
                    rep.fail('orientation/value', f'orientation of label {L}: got {go}, expected '
                             f'{eo} (mod 180) [{tag}]', case_of(L, 'orientation'))
        _ = defect_b
    # ---- units
    if sc.get('unit'):
        for col in UNIT_COLS:
            if obs['_units'].get(col) != 'Jy':
                rep.fail(f'unit/{col}', f'{col} has unit {obs["_units"].get(col)!r}, data unit is Jy '
                         f'[{tag}]', case_of(None, col))
    # ---- to_table agrees with the properties
    try:
        cols = list(SCALAR_COLS)
        tbl = cat.to_table(columns=['label'] + cols)
        if ctx is not None:
            ctx.case((sid, 'to_table'), contract='to_table == properties')
        for col in cols:
            tv = np.asarray(_plain(tbl[col]), dtype=float)
            if isinstance(obs[col], tuple):
                continue
            pv = np.array([v[0] for v in obs[col]])
            if not _close(tuple(tv.tolist()), tuple(pv.tolist()), 0):
                rep.fail(f'to_table/{col}', f'to_table column {col} = {tv.tolist()} differs from the '
                         f'property {pv.tolist()} [{tag}]', case_of(None, col))
    except Exception as exc:  # noqa: BLE001
        rep.fail('to_table/exception', f'to_table raised {exc!r} [{tag}]', case_of(None, 'to_table'))
    return obs, exp_rows


# --------------------------------------------------------------------------- locality
def _row(obs, i):
    out = {}
    for col in ALL_COLS:
        v = obs[col]
        out[col] = v if (isinstance(v, tuple) and v and v[0] == 'EXC') else v[i]
    return out


def _rows_equal(r1, r2, skip=()):
    bad = []
    for col in ALL_COLS:
        if col in skip:
            continue
        a, b = r1[col], r2[col]
        if isinstance(a, tuple) and a and a[0] == 'EXC' or isinstance(b, tuple) and b and b[0] == 'EXC':
            if a != b:
                bad.append(col)
            continue
        if not _close(a, b, 0):
            bad.append(col)
    return bad


def _perturb_outside(sc, L, rng, exp_row):
    """Change everything that is not inside the measurement footprint of label L."""
    seg = np.array(sc['seg'], dtype=int)
    ny, nx = seg.shape
    inside = seg == L
    new = dict(sc)
    mask = decmask(sc.get('mask'), seg.shape)
    # background pixels used by the bilinear interpolation at the centroid are part of the footprint
    keep_bkg = inside.copy()
    cen = exp_row['centroid'] if exp_row['alt'] is None else None
    if exp_row['alt'] is not None:
        keep_bkg[:] = True        # ambiguous centroid definition: leave the background alone
    elif cen[0] == cen[0]:
        x0, y0 = int(math.floor(cen[0])), int(math.floor(cen[1]))
        for yy in (y0, y0 + 1):
            for xx in (x0, x0 + 1):
                if 0 <= yy < ny and 0 <= xx < nx:
                    keep_bkg[yy, xx] = True
        # also the transposed positions (row=x, col=y, clamped): the x/y swap of
        # background_centroid is reported once, by the oracle comparison, not again here
        for yy in (x0, x0 + 1):
            for xx in (y0, y0 + 1):
                keep_bkg[min(max(yy, 0), ny - 1), min(max(xx, 0), nx - 1)] = True

    def pert(a, keep, allow_nonfinite):
        a = a.copy()
        for y in range(ny):
            for x in range(nx):
                if keep[y, x]:
                    continue
                u_ = rng.random()
                if allow_nonfinite and u_ < 0.15:
                    a[y, x] = [np.nan, np.inf, -np.inf][int(rng.integers(3))]
                else:
                    old = a[y, x]
                    a[y, x] = (old if math.isfinite(old) else 0.0) + float(rng.integers(1, 40)) / 8.0 \
                        * (1 if rng.random() < 0.5 else -1)
        return a

    data = dec(sc['data'])
    # data under the input mask inside the label is excluded from every sum: perturb it too
    keep_data = inside & ~mask
    if sc.get('int_data'):
        nd = data.copy()
        for y in range(ny):
            for x in range(nx):
                if not keep_data[y, x]:
                    nd[y, x] = nd[y, x] + float(rng.integers(1, 9)) * (1 if rng.random() < 0.5 else -1)
        new['data'] = enc(nd)
    else:
        new['data'] = enc(pert(data, keep_data, True))
    if sc.get('error') is not None:
        new['error'] = enc(np.abs(pert(dec(sc['error']), keep_data, True)))
    if sc.get('bkg') is not None:
        new['bkg'] = enc(pert(dec(sc['bkg']), keep_bkg | keep_data, False))
    if sc.get('conv') is not None:
        new['conv'] = enc(pert(dec(sc['conv']), keep_data, True))
    if sc.get('mask') is not None or rng.random() < 0.5:
        m = mask.copy()
        flip = (rng.random(seg.shape) < 0.4) & ~inside
        m[flip] = ~m[flip]
        new['mask'] = enc(m)
    det = sc.get('det')
    if det:
        nd = dict(det)
        dmask = decmask(det.get('mask'), seg.shape)
        keep_d = inside & ~dmask
        nd['data'] = enc(pert(dec(det['data']), keep_d, True))
        if det.get('conv') is not None:
            nd['conv'] = enc(pert(dec(det['conv']), keep_d, True))
        if det.get('mask') is not None:
            m = dmask.copy()
            flip = (rng.random(seg.shape) < 0.4) & ~inside
            m[flip] = ~m[flip]
            nd['mask'] = enc(m)
        new['det'] = nd
    return new


def _renumber(sc, rng):
    seg = np.array(sc['seg'], dtype=int)
    labels = sorted({int(v) for v in seg.ravel().tolist()} - {0})
    pool = [int(v) for v in rng.permutation(np.arange(1, 64))[:len(labels)]]
    if len(labels) > 1 and rng.random() < 0.5:
        pool = [int(v) for v in rng.permutation(labels)]     # a pure permutation of the labels
    mp = dict(zip(labels, pool))
    new = dict(sc)
    ns = np.zeros_like(seg)
    for a, b in mp.items():
        ns[seg == a] = b
    new['seg'] = ns.tolist()
    return new, mp


def _only(sc, L):
    seg = np.array(sc['seg'], dtype=int)
    new = dict(sc)
    new['seg'] = np.where(seg == L, L, 0).tolist()
    return new


def locality_compare(kind, sc, sc2, L, L2, order=None):
    """Return the list of columns of row L that differ between the two scenes (exact)."""
    obs1 = observe(build(sc))
    if kind == 'reorder':
        cat = build(sc)
        sub = cat.get_labels(order)
        obs2 = observe(sub)
    else:
        obs2 = observe(build(sc2))
    i1 = obs1['label'].index(L)
    i2 = obs2['label'].index(L2)
    return _rows_equal(_row(obs1, i1), _row(obs2, i2))


def check_locality(sc, obs, exp_rows, rep, ctx, rng, nlab=2):
    sid = scene_id(sc)
    labels = obs['label']
    pick = [int(v) for v in rng.permutation(labels)[:nlab]]
    for L in pick:
        i = labels.index(L)
        base = _row(obs, i)
        # (a) perturb everything outside the footprint
        sc2 = _perturb_outside(sc, L, rng, exp_rows[L])
        ctx.case((sid, L, 'perturb', scene_id(sc2)), contract='locality: data outside the footprint')
        try:
            obs2 = observe(build(sc2))
            bad = _rows_equal(base, _row(obs2, obs2['label'].index(L)))
        except Exception as exc:  # noqa: BLE001
            bad = [f'exception {exc!r}']
        if bad:
            rep.fail('locality/outside-perturbation/' + str(bad[0]).split()[0],
                     f'row of label {L} changed in columns {bad} after changing only pixels outside '
                     f'its footprint', {'kind': 'perturb', 'scene': sc, 'scene2': sc2, 'label': L})
        # (b) the other labels removed from the segmentation map
        if len(labels) > 1:
            sc3 = _only(sc, L)
            ctx.case((sid, L, 'only'), contract='locality: other labels removed')
            try:
                obs3 = observe(build(sc3))
                bad = _rows_equal(base, _row(obs3, 0))
            except Exception as exc:  # noqa: BLE001
                bad = [f'exception {exc!r}']
            if bad:
                rep.fail('locality/other-labels-removed/' + str(bad[0]).split()[0],
                         f'row of label {L} changed in columns {bad} after deleting the other labels',
                         {'kind': 'only', 'scene': sc, 'scene2': sc3, 'label': L})
    # (c) renumbering
    sc4, mp = _renumber(sc, rng)
    try:
        obs4 = observe(build(sc4))
        for L in labels:
            ctx.case((sid, L, 'renumber', tuple(sorted(mp.items()))),
                     nontrivial=mp[L] != L or len(labels) > 1,
                     contract='locality: label renumbering')
            bad = _rows_equal(_row(obs, labels.index(L)), _row(obs4, obs4['label'].index(mp[L])))
            if bad:
                rep.fail('locality/renumbering/' + str(bad[0]).split()[0],
                         f'row of label {L} changed in columns {bad} after renumbering labels {mp}',
                         {'kind': 'renumber', 'scene': sc, 'scene2': sc4, 'label': L,
                          'label2': mp[L]})
    except Exception as exc:  # noqa: BLE001
        rep.fail('locality/renumbering/exception', f'renumbered scene raised {exc!r}',
                 {'kind': 'renumber', 'scene': sc, 'scene2': sc4, 'label': labels[0],
                  'label2': mp[labels[0]]})
    # (d) reordering rows (fresh catalog, rows selected in a permuted order, then evaluated)
    if len(labels) > 1:
        order = [int(v) for v in rng.permutation(labels)]
        try:
            sub = build(sc).get_labels(order)
            obs5 = observe(sub)
            ok_order = obs5['label'] == order
            if not ok_order:
                rep.fail('locality/reorder/label-order', f'get_labels({order}) gives labels '
                         f'{obs5["label"]}', {'kind': 'reorder', 'scene': sc, 'order': order,
                                              'label': order[0]})
            else:
                for L in labels:
                    ctx.case((sid, L, 'reorder', tuple(order)), contract='locality: row reordering')
                    bad = _rows_equal(_row(obs, labels.index(L)), _row(obs5, order.index(L)))
                    if bad:
                        rep.fail('locality/reorder/' + str(bad[0]).split()[0],
                                 f'row of label {L} changed in columns {bad} when rows are taken in '
                                 f'order {order}', {'kind': 'reorder', 'scene': sc, 'order': order,
                                                    'label': L})
        except Exception as exc:  # noqa: BLE001
            rep.fail('locality/reorder/exception', f'get_labels({order}) raised {exc!r}',
                     {'kind': 'reorder', 'scene': sc, 'order': order, 'label': order[0]})


# --------------------------------------------------------------------------- scene generation
LABEL_POOLS = ([1, 2, 3, 4, 5, 6], [2, 5, 17, 40, 41, 99], [7, 3, 1000, 12, 8, 65])


def seg_templates(ny, nx, pool, rng):
    """[(name, seg)] for one shape; labels taken from `pool` (not sorted on purpose)."""
    a, b, c, d = pool[:4]
    out = []
    s = np.zeros((ny, nx), int)
    s[:, :] = a
    out.append(('full', s))
    if nx >= 3 and ny >= 2:
        s = np.zeros((ny, nx), int)
        s[:, :nx // 3] = a
        s[:ny // 2, nx // 3:] = b
        s[ny // 2:, nx // 3:] = c
        out.append(('touching', s))
    if ny >= 5 and nx >= 5:
        s = np.zeros((ny, nx), int)
        s[1:ny - 1, 1:nx - 1] = a
        s[2:ny - 2, 2:nx - 2] = b
        s[ny // 2, nx // 2] = c
        out.append(('nested', s))
        s = np.zeros((ny, nx), int)
        s[0, :] = a
        s[-1, :] = b
        s[1:-1, 0] = c
        s[1:-1, -1] = d
        s[ny // 2, nx // 2] = pool[4]
        out.append(('frame', s))
        s = np.zeros((ny, nx), int)          # U shape (a) with b inside the opening
        s[1:ny - 1, 1] = a
        s[1:ny - 1, nx - 2] = a
        s[ny - 2, 1:nx - 1] = a
        s[1:ny - 3, 3:nx - 3] = b
        out.append(('u-shape', s))
    if ny >= 2 and nx >= 2:
        s = np.zeros((ny, nx), int)
        yy, xx = np.mgrid[0:ny, 0:nx]
        s[(yy + xx) % 2 == 0] = a
        s[(yy + xx) % 2 == 1] = b
        if ny >= 5 and nx >= 5:
            s[1:3, 1:3] = c
        out.append(('checker', s))
    if ny >= 3 and nx >= 3:
        s = np.zeros((ny, nx), int)          # single pixels: corners, adjacent, diagonal
        s[0, 0] = a
        s[0, nx - 1] = b
        s[ny - 1, 0] = c
        s[ny - 1, nx - 1] = d
        s[1, 1] = pool[4]
        if nx >= 4:
            s[1, 2] = pool[5]
        out.append(('singles', s))
        s = np.zeros((ny, nx), int)          # lines: diagonal, anti-diagonal, row, column
        n = min(ny, nx)
        for i in range(n):
            s[i, i] = a
        for i in range(n):
            if s[i, nx - 1 - i] == 0:
                s[i, nx - 1 - i] = b
        out.append(('diagonals', s))
        s = np.zeros((ny, nx), int)
        s[0, :] = a
        s[2:, 0] = b
        for i in range(ny):
            x = 1 + 2 * i
            if 2 <= i < ny and x < nx:
                s[i, x] = c
        s[ny - 1, nx - 1] = d
        out.append(('lines', s))
    if ny * nx >= 2:
        for k in range(2):
            nlab = int(rng.integers(1, 7))
            npts = nlab + int(rng.integers(0, 4))
            py = rng.integers(0, ny, npts)
            px = rng.integers(0, nx, npts)
            lab = [pool[j % nlab] if rng.random() > 0.25 else 0 for j in range(npts)]
            s = np.zeros((ny, nx), int)
            for y in range(ny):
                for x in range(nx):
                    d2 = (py - y) ** 2 + (px - x) ** 2
                    s[y, x] = lab[int(np.argmin(d2))]
            if rng.random() < 0.5:
                s[rng.random((ny, nx)) < 0.2] = 0
            if not s.any():
                s[int(py[0]), int(px[0])] = pool[0]
            out.append((f'voronoi{k}', s))
    return out


def _dy(rng, shape, lo=-16, hi=64, few=False):
    if few:
        vals = rng.integers(lo, hi, 5) / 8.0
        return vals[rng.integers(0, 5, shape)]
    return rng.integers(lo, hi, shape) / 8.0


def make_scene(seg, rng, force=None):
    ny, nx = seg.shape
    shape = seg.shape
    labels = sorted({int(v) for v in seg.ravel().tolist()} - {0})
    sc = {'seg': seg.tolist()}
    kind = force or str(rng.choice(['dy', 'dyfew', 'flt', 'pos', 'neg', 'zero', 'int', 'dy', 'dyfew']))
    int_data = False
    if kind == 'dy':
        data = _dy(rng, shape)
    elif kind == 'dyfew':
        data = _dy(rng, shape, few=True)
    elif kind == 'flt':
        data = rng.normal(2.0, 2.0, shape)
    elif kind == 'pos':
        data = _dy(rng, shape, 1, 64)
    elif kind == 'neg':
        data = _dy(rng, shape, -40, 0)
    elif kind == 'zero':
        data = np.zeros(shape)
    else:
        data = rng.integers(-3, 10, shape).astype(float)
        int_data = True
    sc['int_data'] = int_data
    # non-finite data pixels
    nf = np.zeros(shape, bool)
    if not int_data and rng.random() < 0.5:
        nf = rng.random(shape) < 0.12
    mkind = str(rng.choice(['none', 'random', 'cut', 'label', 'nflabel', 'random']))
    mask = None
    if mkind == 'random':
        mask = rng.random(shape) < 0.25
    elif mkind == 'cut':
        mask = np.zeros(shape, bool)
        mask[ny // 2, :] = True
        mask[:, nx // 2] = True
    elif mkind == 'label':
        mask = rng.random(shape) < 0.1
        mask |= seg == labels[int(rng.integers(len(labels)))]
    elif mkind == 'nflabel' and not int_data:
        nf |= seg == labels[int(rng.integers(len(labels)))]
    data = data.copy()
    for (y, x) in zip(*np.nonzero(nf)):
        data[y, x] = [np.nan, np.inf, -np.inf][int(rng.integers(3))]
    sc['data'] = enc(data)
    sc['mask'] = None if mask is None else enc(mask)
    excluded = nf | (mask if mask is not None else np.zeros(shape, bool))
    sc['error'] = None
    if rng.random() < 0.6:
        err = _dy(rng, shape, 1, 32)
        bad = excluded & (rng.random(shape) < 0.5)
        for (y, x) in zip(*np.nonzero(bad)):
            err[y, x] = [np.nan, np.inf][int(rng.integers(2))]
        sc['error'] = enc(err)
    sc['bkg'] = None
    if rng.random() < 0.6:
        bkg = _dy(rng, shape, 0, 32)
        if rng.random() < 0.3:      # plane: makes an x/y swap visible everywhere
            yy, xx = np.mgrid[0:ny, 0:nx]
            bkg = 16.0 * yy + xx + 0.5
        bkg[excluded & (rng.random(shape) < 0.5)] = 4096.0
        sc['bkg'] = enc(bkg)

    def conv_like():
        cv = _dy(rng, shape, -12, 64, few=rng.random() < 0.3)
        if rng.random() < 0.5:
            bad = rng.random(shape) < 0.1
            for (y, x) in zip(*np.nonzero(bad)):
                cv[y, x] = [np.nan, np.inf, -np.inf][int(rng.integers(3))]
        return cv

    sc['conv'] = enc(conv_like()) if rng.random() < 0.5 else None
    sc['det'] = None
    if rng.random() < 0.3:
        dd = _dy(rng, shape, -8, 64)
        if rng.random() < 0.4:
            bad = rng.random(shape) < 0.1
            for (y, x) in zip(*np.nonzero(bad)):
                dd[y, x] = np.nan
        dm = None
        u_ = rng.random()
        if u_ < 0.3:
            dm = rng.random(shape) < 0.2
        elif u_ < 0.45:
            dm = seg == labels[int(rng.integers(len(labels)))]
        sc['det'] = {'data': enc(dd), 'conv': enc(conv_like()) if rng.random() < 0.5 else None,
                     'mask': None if dm is None else enc(dm)}
    sc['unit'] = bool(rng.random() < 0.2)
    return sc


def directed_scenes():
    """Hand-written scenes for the sharp corners of the statement (seed independent)."""
    out = []
    # 1. non-finite data pixel with finite convolved data (auto-masked pixel must not enter moments)
    seg = np.zeros((6, 6), int)
    seg[1:4, 1:5] = 4
    seg[4:6, 0:2] = 9
    data = np.ones((6, 6))
    conv = np.ones((6, 6))
    conv[1, 1] = 5.0
    d2 = data.copy()
    d2[1, 1] = np.nan
    out.append(('nan-data-finite-conv', {'seg': seg.tolist(), 'data': enc(d2), 'int_data': False,
                                         'mask': None, 'error': None, 'bkg': None, 'conv': enc(conv),
                                         'det': None, 'unit': False}))
    d3 = data.copy()
    d3[1:4, 1:5] = np.inf
    out.append(('all-nonfinite-data-finite-conv',
                {'seg': seg.tolist(), 'data': enc(d3), 'int_data': False, 'mask': None,
                 'error': enc(data), 'bkg': enc(data), 'conv': enc(conv), 'det': None,
                 'unit': False}))
    # 2. plane background, off-diagonal source: x/y swap of the interpolation visible
    seg = np.zeros((8, 10), int)
    seg[1:3, 6:9] = 1
    seg[5:8, 0:2] = 2
    data = np.zeros((8, 10))
    data[seg > 0] = 1.0
    data[1, 6] = 3.0
    yy, xx = np.mgrid[0:8, 0:10]
    out.append(('plane-background', {'seg': seg.tolist(), 'data': enc(data), 'int_data': False,
                                     'mask': None, 'error': None, 'bkg': enc(100.0 * yy + xx),
                                     'conv': None, 'det': None, 'unit': False}))
    # 3. collinear sources with unequal weights (exact determinant 0)
    seg = np.zeros((10, 10), int)
    vals = [3.0, 1.1, 7.0, 1.0, 0.5]
    data = np.zeros((10, 10))
    for i, v in enumerate(vals):
        seg[i, 9 - i] = 3
        data[i, 9 - i] = v
    for i, v in enumerate([3.0, 0.25, 1.1, 0.5, 0.5]):
        y, x = i + 5, 2 * i
        if x < 10 and seg[y, x] == 0:
            seg[y, x] = 8
            data[y, x] = v
    out.append(('collinear', {'seg': seg.tolist(), 'data': enc(data), 'int_data': False,
                              'mask': None, 'error': None, 'bkg': None, 'conv': None, 'det': None,
                              'unit': False}))
    # 4. source fully masked in the detection catalog only
    seg = np.zeros((6, 6), int)
    seg[1:4, 1:4] = 1
    seg[4:6, 4:6] = 2
    dm = np.zeros((6, 6), bool)
    dm[1:4, 1:4] = True
    one = np.ones((6, 6))
    out.append(('masked-in-detection-cat-only',
                {'seg': seg.tolist(), 'data': enc(one), 'int_data': False, 'mask': None,
                 'error': enc(one), 'bkg': enc(one), 'conv': None,
                 'det': {'data': enc(2 * one), 'conv': None, 'mask': enc(dm)}, 'unit': False}))
    # 5. bounding-box corners far from the origin, label 1000
    seg = np.zeros((12, 12), int)
    seg[7:11, 9:12] = 1000
    seg[0, 0] = 1
    data = np.arange(144.0).reshape(12, 12) / 8.0
    out.append(('corners', {'seg': seg.tolist(), 'data': enc(data), 'int_data': False, 'mask': None,
                            'error': None, 'bkg': None, 'conv': None, 'det': None, 'unit': True}))
    return out


def run(ctx):
    rng = ctx.rng
    rep = Reporter(ctx, cap=3)
    shapes_all = [(1, 1), (1, 5), (4, 1), (2, 2), (3, 3), (5, 7), (8, 8), (9, 12), (12, 12)]
    nconf = 150 if ctx.thorough else 12
    ctx.budget_s = 480 if ctx.thorough else 45
    nscene = 0
    for name, sc in directed_scenes():
        obs, exp = check_scene(sc, rep, ctx, tag=name)
        nscene += 1
        if obs is not None and exp is not None and not isinstance(obs.get('label'), tuple):
            check_locality(sc, obs, exp, rep, ctx, rng)
    stop = False
    for rnd in range(nconf):
        if stop:
            break
        for si, shape in enumerate(shapes_all):
            if stop:
                break
            pool = LABEL_POOLS[(rnd + si) % 3]
            for name, seg in seg_templates(shape[0], shape[1], pool, rng):
                if ctx.out_of_time():
                    ctx.note(f'time budget reached after {nscene} scenes (round {rnd})')
                    stop = True
                    break
                sc = make_scene(seg, rng)
                tag = f'{name}{shape}'
                obs, exp = check_scene(sc, rep, ctx, tag=tag)
                nscene += 1
                if obs is None or exp is None or obs['label'] != sorted(exp):
                    continue
                # locality on a share of the scenes (5 more catalog evaluations each)
                if ctx.thorough or (nscene % 2 == 0):
                    check_locality(sc, obs, exp, rep, ctx, rng, nlab=2 if ctx.thorough else 1)
    ctx.note(f'{nscene} scenes evaluated; failures per key (all occurrences): {rep.counts}')


# --------------------------------------------------------------------------- replay
def replay(case):
    kind = case.get('kind')
    try:
        if kind == 'oracle':
            rep = Reporter(None, cap=10 ** 6)
            check_scene(case['scene'], rep, None, tag='replay')
            L = case.get('label')
            want = case.get('key')
            hits = [(k, w) for (k, w) in rep.records
                    if (want is None or k == want)
                    and (L is None or f'label {L}' in w or 'label' not in w)]
            if hits:
                return 'confirmed', hits[0][1], {'failures': [k for k, _ in hits][:10]}
            return 'spurious', 'the scene no longer violates the contract', {'failures': []}
        if kind in ('perturb', 'only', 'renumber'):
            L = case['label']
            bad = locality_compare(kind, case['scene'], case['scene2'], L, case.get('label2', L))
            if bad:
                return 'confirmed', f'row of label {L} differs in columns {bad}', {'columns': bad}
            return 'spurious', 'rows identical', {'columns': []}
        if kind == 'reorder':
            L = case['label']
            bad = locality_compare('reorder', case['scene'], None, L, L, order=case['order'])
            if bad:
                return 'confirmed', f'row of label {L} differs in columns {bad}', {'columns': bad}
            return 'spurious', 'rows identical', {'columns': []}
        return 'error', f'unknown case kind {kind!r}', None
    except Exception as exc:  # noqa: BLE001
        return 'error', repr(exc), None
