"""C10 - no public call modifies the arrays, tables, models, masks, kernels, footprints, apertures or
segmentation images passed to it (bounded snapshot contracts on the real entry points).

Every entry point is a small generator: it yields (label, thunk) steps - the call / constructor
first, then every public property and non-mutating method of the returned object.  Around EVERY
step (also when it raises) each caller-held object is compared bit-for-bit with a deep snapshot
(values incl. NaN bit patterns, dtype, shape, writeable flag, mask / nomask, fill_value, hardmask,
unit, table columns + meta, model parameters + constraints + image data, aperture attributes,
SegmentationImage.data, EllipseGeometry fields; for views also the parent array).
"""
import inspect

import numpy as np

BOUNDS = (
    "Scene: 31x33 float64 image, 3 Gaussian sources (two blended) + ramp + noise seeded from ctx.rng; "
    "conditions {clean, neg (offset so that many pixels incl. inside source cut-outs are negative), "
    "nan (NaN, +inf, -inf inside a source and in the sky, NaN in error)}; an explicit bool mask with "
    "masked pixels inside a source is always passed where accepted; argument representations "
    "{ndarray, MaskedArray (own mask, fill_value 123), Quantity (Jy; thresholds/backgrounds get the "
    "unit), view of a larger array (data, error, mask, background all views; parents are snapshotted)} "
    "[thorough: + condition nan+neg for every representation, Fortran-ordered arrays under all 4 "
    "conditions, float32 and int32 ndarray data under clean/neg, and a second noise realisation of the "
    "whole quick product]. 33 entry groups: NDData "
    "containers (data+mask+StdDevUncertainty+unit) into aperture_photometry / ApertureStats / "
    "Background2D / PSFPhotometry / make_residual_image, "
    "aperture_photometry (3 methods, list of apertures), PixelAperture.do_photometry/area_overlap/"
    "to_mask + ApertureMask.cutout/multiply/get_values/to_image, ApertureStats (+ every public "
    "property, to_table; sigma_clip and local_bkg variants), Background2D (+ every map; Zoom and IDW; "
    "plus a lattice of 26 box shapes on the 31x33 image: full-width strips (k, nx), full-height strips "
    "(ny, k), (1, k), (k, 1), box == image, dividing and non-dividing boxes, each with "
    "mask+coverage_mask and without, bright sources that get sigma-clipped), "
    "background/RMS estimator classes, LocalBackground, detect_threshold, detect_sources, "
    "deblend_sources, SourceFinder, SegmentationImage (properties, make_source_mask, copy), "
    "SourceCatalog (+ every public property, to_table, circular/kron photometry, fluxfrac_radius, "
    "make_cutouts, apertures, slicing; with localbkg, convolved_data, background, detection_cat), "
    "find_peaks (box and footprint, centroid_func), DAOStarFinder, IRAFStarFinder, StarFinder (float "
    "and int kernel), centroid_com/quadratic/1dg/2dg, centroid_sources (4 centroid functions), "
    "RadialProfile / CurveOfGrowth (+ properties, normalize/unnormalize, ee methods), PSFPhotometry "
    "and IterativePSFPhotometry (init_params table, psf model, mask, error, grouper/localbkg; "
    "make_model_image, make_residual_image), datasets.make_model_image, fit_2dgaussian, fit_fwhm, "
    "calc_total_error, data_properties (+ properties), gini, Ellipse.fit_image / fit_isophote (+ "
    "EllipseGeometry), ImagePSF and GriddedPSFModel construction/evaluation, extract_stars, "
    "CutoutImage, ShepardIDWInterpolator, create_matching_kernel, resize_psf. Each (entry, "
    "representation, condition) is run once per tier; comparison is exact (bytes).")
RULE = (
    "Full cross product entry point x representation x condition (no sampling; only the pixel noise is "
    "random). A case is one step (call or property read) of one (entry, representation, condition) "
    "run; it is distinct by (entry, step, representation, condition) and non-trivial when the step "
    "completed without raising (steps that raise are still checked for modifications and counted as "
    "trivial).")


# ----------------------------------------------------------------------------------------------
# deep snapshots
# ----------------------------------------------------------------------------------------------
def _nd(a):
    a = np.asarray(a)
    if a.dtype.kind == 'O':
        return ('ndo', a.shape, repr(a.tolist()))
    c = np.ascontiguousarray(a)
    return ('nd', a.dtype.str, a.shape, bool(a.flags.writeable), c.tobytes(), c.copy())


def snap(obj, depth=0):
    import astropy.units as u
    from astropy.modeling import Model
    from astropy.nddata import NDData
    from astropy.table import Table
    if obj is None or isinstance(obj, (bool, int, float, complex, str, bytes, np.generic)) \
            and not isinstance(obj, u.Quantity):
        return ('v', type(obj).__name__, repr(obj))
    if depth > 6:
        return ('deep', type(obj).__name__)
    if isinstance(obj, np.ma.MaskedArray):
        m = obj.mask
        return ('ma', _nd(obj.data), 'nomask' if m is np.ma.nomask else _nd(m),
                repr(obj.fill_value), bool(obj.hardmask), obj.dtype.str)
    if isinstance(obj, u.Quantity):
        return ('q', type(obj).__name__, obj.unit.to_string(), _nd(obj.value))
    if isinstance(obj, np.ndarray):
        return ('a', type(obj).__name__, _nd(obj))
    if isinstance(obj, Table):
        cols = {}
        for c in obj.colnames:
            col = obj[c]
            unit = getattr(col, 'unit', None)
            val = col.value if isinstance(col, u.Quantity) else np.asarray(col)
            msk = getattr(col, 'mask', None)
            cols[c] = (None if unit is None else str(unit), _nd(val),
                       None if msk is None or isinstance(col, u.Quantity) else _nd(msk))
        return ('tbl', type(obj).__name__, tuple(obj.colnames), cols, snap(dict(obj.meta), depth + 1),
                bool(obj.masked))
    if isinstance(obj, NDData):
        unc = obj.uncertainty
        return ('ndd', type(obj).__name__, snap(obj.data, depth + 1), snap(obj.mask, depth + 1),
                None if unc is None else (type(unc).__name__, snap(unc.array, depth + 1)),
                None if obj.unit is None else str(obj.unit), snap(dict(obj.meta), depth + 1))
    if isinstance(obj, Model):
        extra = {}
        for name in ('data', 'grid_xypos', 'oversampling', 'origin', 'fill_value'):
            if hasattr(obj, name):
                try:
                    extra[name] = snap(getattr(obj, name), depth + 1)
                except Exception:  # noqa: BLE001
                    pass
        return ('model', type(obj).__name__, tuple(obj.param_names), _nd(obj.parameters),
                repr(sorted(obj.fixed.items())), repr(sorted(obj.bounds.items())),
                repr(sorted((k, v is not False and v is not None) for k, v in obj.tied.items())),
                repr(obj.name), extra)
    if isinstance(obj, dict):
        return ('dict', tuple((repr(k), snap(v, depth + 1)) for k, v in obj.items()))
    if isinstance(obj, (list, tuple)):
        return ('seq', type(obj).__name__, tuple(snap(v, depth + 1) for v in obj))
    mod = type(obj).__module__
    if mod.startswith('photutils.aperture'):
        if hasattr(obj, '_params'):
            return ('aper', type(obj).__name__,
                    {p: snap(getattr(obj, p), depth + 1) for p in obj._params})
        if type(obj).__name__ == 'ApertureMask':
            return ('apermask', snap(obj.data, depth + 1), repr(obj.bbox))
    if type(obj).__name__ == 'SegmentationImage':
        return ('segm', _nd(obj._data))
    if type(obj).__name__ == 'EllipseGeometry':
        # centerer_threshold is deliberately not part of the snapshot: Ellipse.__init__/set_threshold
        # store it on the geometry by documented design (noted in run(), like F25)
        return ('geom', {k: snap(getattr(obj, k, '<unset>'), depth + 1)
                         for k in ('x0', 'y0', 'sma', 'eps', 'pa', 'astep', 'linear_growth', 'fix')})
    if mod.startswith('astropy.convolution'):
        return ('kernel', type(obj).__name__, _nd(obj.array))
    if type(obj).__name__ == 'SigmaClip':
        return ('sigclip', repr(obj))
    if hasattr(obj, 'sigma_clip') and mod.startswith('photutils.background'):
        return ('estimator', type(obj).__name__, snap(obj.sigma_clip, depth + 1))
    if type(obj).__name__ == 'SourceGrouper':
        return ('grouper', repr(vars(obj)))
    return ('repr', type(obj).__name__, repr(obj)[:300])


def sdiff(a, b, path=''):
    """First difference between two snapshots (None when identical)."""
    if type(a) is not type(b):
        return f'{path}: {type(a).__name__} -> {type(b).__name__}'
    if isinstance(a, tuple) and a and a[0] in ('nd',) and b and b[0] == 'nd':
        if a[1] != b[1]:
            return f'{path}: dtype {a[1]} -> {b[1]}'
        if a[2] != b[2]:
            return f'{path}: shape {a[2]} -> {b[2]}'
        if a[3] != b[3]:
            return f'{path}: writeable {a[3]} -> {b[3]}'
        if a[4] != b[4]:
            x, y = a[5], b[5]
            ch = np.argwhere(x.view(np.uint8).reshape(x.shape + (-1,)).astype(np.int16)
                             != y.view(np.uint8).reshape(y.shape + (-1,)).astype(np.int16))
            idx = tuple(int(v) for v in ch[0][:-1]) if len(ch) else ()
            n = len({tuple(r[:-1]) for r in ch.tolist()})
            return f'{path}: {n} element(s) changed, first at {idx}: {x[idx]!r} -> {y[idx]!r}'
        return None
    if isinstance(a, tuple):
        if len(a) != len(b):
            return f'{path}: structure changed ({len(a)} -> {len(b)} items)'
        for i, (x, y) in enumerate(zip(a, b)):
            r = sdiff(x, y, f'{path}.{_lbl(a, i)}')
            if r:
                return r
        return None
    if isinstance(a, dict):
        if list(a) != list(b):
            return f'{path}: keys {list(a)} -> {list(b)}'
        for k in a:
            r = sdiff(a[k], b[k], f'{path}[{k!r}]')
            if r:
                return r
        return None
    if isinstance(a, np.ndarray):
        return None          # the copy kept for messages; bytes were compared
    if a != b:
        return f'{path}: {str(a)[:80]} -> {str(b)[:80]}'
    return None


_LBL = {'ma': ['', 'data', 'mask', 'fill_value', 'hardmask', 'dtype'],
        'q': ['', 'type', 'unit', 'value'], 'a': ['', 'type', 'array'],
        'tbl': ['', 'type', 'colnames', 'columns', 'meta', 'masked'],
        'ndd': ['', 'type', 'data', 'mask', 'uncertainty', 'unit', 'meta'],
        'model': ['', 'type', 'param_names', 'parameters', 'fixed', 'bounds', 'tied', 'name', 'attrs'],
        'segm': ['', 'data'], 'kernel': ['', 'type', 'array'], 'aper': ['', 'type', 'attr'],
        'geom': ['', 'field'], 'v': ['', 'type', 'value']}


def _lbl(t, i):
    if t and isinstance(t[0], str) and t[0] in _LBL and i < len(_LBL[t[0]]):
        return _LBL[t[0]][i]
    return str(i)


# ----------------------------------------------------------------------------------------------
# inputs
# ----------------------------------------------------------------------------------------------
SHAPE = (31, 33)
SRC = [(9.3, 10.2, 60.0, 1.6), (13.1, 11.4, 45.0, 1.5), (23.6, 21.3, 80.0, 1.8)]   # x, y, amp, sigma
REPS = ['nd', 'ma', 'qty', 'view']
CONDS = ['clean', 'neg', 'nan']


class H:
    """Caller-held objects of one run: h.<name> and the registry h.held (name -> object)."""

    def __init__(self, rep, cond, dseed):
        import astropy.units as u
        self.rep, self.cond, self.dseed = rep, cond, dseed
        self.unit = u.Jy if rep == 'qty' else None
        self.held = {}
        rng = np.random.default_rng(dseed)
        yy, xx = np.mgrid[0:SHAPE[0], 0:SHAPE[1]]
        img = 0.02 * xx + 0.5
        for x, y, a, s in SRC:
            img = img + a * np.exp(-((xx - x) ** 2 + (yy - y) ** 2) / (2 * s * s))
        img = img + rng.normal(0, 0.4, SHAPE)
        err = 0.4 + 0.05 * np.sqrt(np.abs(img))
        if cond in ('neg', 'nanneg'):
            img = img - 3.0
            img[10, 8] = -25.0          # strongly negative pixel inside a source cut-out
            img[22, 24] = -4.0
        if cond in ('nan', 'nanneg'):
            img[10, 10] = np.nan        # inside source 1
            img[21, 23] = np.inf        # inside source 3
            img[3, 28] = -np.inf
            img[27, 4] = np.nan
            err[12, 16] = np.nan        # inside apertures / profiles, outside the 5x5 PSF fit boxes
        mask = np.zeros(SHAPE, bool)
        mask[11, 9] = mask[20, 24] = mask[5, 5] = mask[29, 30] = True
        self.add_image('data', img, unit=True)
        self.add_image('error', err, unit=True)
        self.add_image('mask', mask)
        self.base = img                  # plain copy for building derived inputs (never passed on)
        self.base = np.array(img, copy=True)

    # -- registry ------------------------------------------------------------------------------
    def add(self, name, obj):
        self.held[name] = obj
        setattr(self, name, obj)
        return obj

    def add_image(self, name, arr, unit=False):
        """Register a 2D array argument in the representation of this run."""
        arr = np.array(arr, copy=True)
        if self.rep == 'view':
            big = np.full((arr.shape[0] + 5, arr.shape[1] + 6), 7 if arr.dtype != bool else True,
                          dtype=arr.dtype)
            big[2:-3, 4:-2] = arr
            self.held[name + '.parent'] = big
            arr = big[2:-3, 4:-2]
        elif self.rep == 'fortran':
            arr = np.asfortranarray(arr)
        elif self.rep == 'ma' and name == 'data':
            m = np.zeros(arr.shape, bool)
            m[12, 14] = m[2, 2] = True
            arr = np.ma.MaskedArray(arr, mask=m, fill_value=123.0)
        if unit and self.unit is not None:
            arr = arr << self.unit
        return self.add(name, arr)

    def q(self, v):
        return v if self.unit is None else v * self.unit

    @property
    def plain(self):
        """A private finite ndarray version of the scene (for building segmentations etc.)."""
        return np.nan_to_num(self.base, nan=0.0, posinf=0.0, neginf=0.0)


def _props(obj, skip=()):
    out = []
    for n, v in inspect.getmembers(type(obj)):
        if n.startswith('_') or n in skip:
            continue
        if isinstance(v, property) or type(v).__name__ == 'lazyproperty':
            out.append(n)
    return out


def _segm(h):
    """A private segmentation of the scene built with plain numpy (thresholded blobs)."""
    from scipy import ndimage

    from photutils.segmentation import SegmentationImage
    lab, _ = ndimage.label(h.plain - np.median(h.plain) > 6.0)
    return SegmentationImage(lab.astype(np.int32))


# ----------------------------------------------------------------------------------------------
# entry points: generators yielding (label, thunk); the result of the thunk is sent back
# ----------------------------------------------------------------------------------------------
def ep_aperture_photometry(h):
    from photutils.aperture import (CircularAperture, EllipticalAnnulus, RectangularAperture,
                                    aperture_photometry)
    pos = h.add('positions', np.array([[9.3, 10.2], [23.6, 21.3], [1.0, 30.0], [40.0, 40.0]]))
    ap1 = h.add('aperture', CircularAperture(pos, r=3.5))
    ap2 = h.add('aperture2', EllipticalAnnulus(pos, 2.0, 5.0, 3.0, theta=0.3))
    ap3 = h.add('aperture3', RectangularAperture((12.0, 11.0), 6.0, 4.0, theta=0.5))
    for method in ('exact', 'center', 'subpixel'):
        yield (method, lambda m=method: aperture_photometry(h.data, [ap1, ap2], error=h.error, mask=h.mask,
                                                           method=m, subpixels=3))
    yield ('scalar', lambda: aperture_photometry(h.data, ap3, error=h.error))
    yield ('nomask', lambda: aperture_photometry(h.data, ap1))


def ep_aperture_methods(h):
    from photutils.aperture import CircularAnnulus, EllipticalAperture
    ap = h.add('aperture', EllipticalAperture([(9.3, 10.2), (30.5, 29.0)], 4.0, 2.5, theta=0.4))
    an = h.add('aperture2', CircularAnnulus((23.6, 21.3), 2.0, 5.0))
    yield ('do_photometry', lambda: ap.do_photometry(h.data, error=h.error, mask=h.mask))
    yield ('do_photometry_center', lambda: an.do_photometry(h.data, error=h.error, mask=h.mask,
                                                            method='center'))
    yield ('area_overlap', lambda: ap.area_overlap(h.data, mask=h.mask))
    masks = yield ('to_mask', lambda: ap.to_mask('exact'))
    if masks is None:
        return
    for i, m in enumerate(masks):
        yield (f'mask.cutout{i}', lambda m=m: m.cutout(h.data))
        yield (f'mask.cutout_copy{i}', lambda m=m: m.cutout(h.data, fill_value=-1.0, copy=True))
        yield (f'mask.multiply{i}', lambda m=m: m.multiply(h.data, fill_value=np.nan))
        yield (f'mask.get_values{i}', lambda m=m: m.get_values(h.data, mask=h.mask))
        yield (f'mask.to_image{i}', lambda m=m: m.to_image(SHAPE))


def ep_ApertureStats(h):
    from astropy.stats import SigmaClip

    from photutils.aperture import ApertureStats, CircularAperture
    ap = h.add('aperture', CircularAperture([(9.3, 10.2), (23.6, 21.3), (31.0, 1.0)], r=4.0))
    lb = h.add('local_bkg', h.q(np.array([0.5, 0.7, 0.1])))
    sc = h.add('sigma_clip', SigmaClip(sigma=2.5, maxiters=3))
    for label, kw in (('', {'local_bkg': lb}), ('sigclip', {'sigma_clip': sc, 'sum_method': 'center'})):
        st = yield (label + 'init', lambda kw=kw: ApertureStats(h.data, ap, error=h.error, mask=h.mask, **kw))
        if st is None:
            continue
        for p in _props(st):
            yield (label + p, lambda p=p: getattr(st, p))
        yield (label + 'to_table', lambda: st.to_table())
        yield (label + 'getitem', lambda: st[1].sum)


def ep_Background2D(h):
    from photutils.background import Background2D, BkgIDWInterpolator
    cov = np.zeros(SHAPE, bool)
    cov[:4, :6] = True
    cov = h.add_image('coverage_mask', cov)
    for label, kw in (('', {}), ('idw', {'interpolator': BkgIDWInterpolator(), 'filter_threshold': 1.0})):
        b = yield (label + 'init', lambda kw=kw: Background2D(h.data, (8, 8), mask=h.mask, coverage_mask=cov,
                                                                filter_size=3, exclude_percentile=50.0, **kw))
        if b is None:
            continue
        for p in _props(b):
            yield (label + p, lambda p=p: getattr(b, p))
    # box-shape lattice: block reshapes of full-width / one-pixel-high boxes are VIEWS of the image, so a
    # missing defensive copy lets the NaN fill of masked pixels and sigma_clip(copy=False) reach the caller
    ny, nx = SHAPE
    boxes = [(k, nx) for k in (1, 2, 5, 10, 15, 16, 30, 31)]          # full-width strips (dividing or not)
    boxes += [(ny, k) for k in (1, 3, 8, 11, 17, 33)]                 # full-height strips
    boxes += [(1, k) for k in (1, 3, 8, 11)] + [(k, 1) for k in (4, 31)]
    boxes += [(7, 5), (8, 8), (31, 11), (10, 11), (16, 17), (30, 32)]  # dividing and non-dividing boxes
    for box in boxes:
        for tag, kw in (('', {'mask': h.mask, 'coverage_mask': cov}), (',nomask', {})):
            def make(box=box, kw=kw):
                b = Background2D(h.data, box, exclude_percentile=95.0, filter_size=1, **kw)
                return b.background, b.background_rms
            yield (f'init[box={box}{tag}]', make)


def ep_bkg_estimators(h):
    import photutils.background as pb
    from astropy.stats import SigmaClip
    names = ['MeanBackground', 'MedianBackground', 'ModeEstimatorBackground', 'MMMBackground',
             'SExtractorBackground', 'BiweightLocationBackground', 'StdBackgroundRMS',
             'MADStdBackgroundRMS', 'BiweightScaleBackgroundRMS']
    for n in names:
        est = getattr(pb, n)(sigma_clip=SigmaClip(sigma=3.0, maxiters=5))
        yield (n, lambda est=est: est(h.data))
        yield (n + '.axis', lambda est=est: est(h.data, axis=1))
        yield (n + '.masked', lambda est=est: est(h.data, axis=0, masked=True))


def ep_LocalBackground(h):
    from photutils.background import LocalBackground
    x = h.add('x', np.array([9.3, 23.6, 1.0]))
    y = h.add('y', np.array([10.2, 21.3, 29.0]))
    lb = LocalBackground(4.0, 8.0)
    yield ('', lambda: lb(h.data, x, y, mask=h.mask))
    yield ('scalar', lambda: lb(h.data, 9.3, 10.2))


def ep_detect_threshold(h):
    from photutils.segmentation import detect_threshold
    bkg = h.add_image('background', np.full(SHAPE, 0.5) + 0.01 * np.arange(SHAPE[1])[None, :], unit=True)
    yield ('', lambda: detect_threshold(h.data, 2.0, mask=h.mask))
    yield ('bkg+err', lambda: detect_threshold(h.data, 2.0, background=bkg, error=h.error, mask=h.mask))
    yield ('bkg', lambda: detect_threshold(h.data, 2.0, background=bkg))


def ep_detect_sources(h):
    from photutils.segmentation import detect_sources
    thr = h.add_image('threshold', np.full(SHAPE, 4.0), unit=True)
    yield ('', lambda: detect_sources(h.data, thr, 4, mask=h.mask))
    yield ('scalar-thr', lambda: detect_sources(h.data, h.q(4.0), 4, connectivity=4))


def ep_deblend_sources(h):
    from photutils.segmentation import deblend_sources
    segm = h.add('segment_img', _segm(h))
    lab = h.add('labels', np.array([1]))
    yield ('', lambda: deblend_sources(h.data, segm, 3, nlevels=8, contrast=0.001, progress_bar=False))
    yield ('labels', lambda: deblend_sources(h.data, segm, 3, labels=lab, nlevels=8, mode='linear',
                                             relabel=False, progress_bar=False))


def ep_SourceFinder(h):
    from photutils.segmentation import SourceFinder
    thr = h.add_image('threshold', np.full(SHAPE, 4.0), unit=True)
    f = SourceFinder(4, nlevels=8, progress_bar=False)
    yield ('', lambda: f(h.data, thr, mask=h.mask))
    yield ('nodeblend', lambda: SourceFinder(4, deblend=False, progress_bar=False)(h.data, h.q(4.0)))


def ep_SegmentationImage(h):
    from photutils.segmentation import SegmentationImage
    from photutils.utils import circular_footprint
    arr = h.add('segm_array', np.array(_segm(h).data, copy=True))
    fp = h.add('footprint', circular_footprint(2))
    s = yield ('init', lambda: SegmentationImage(arr))
    if s is None:
        return
    for p in _props(s, skip=('cmap', 'polygons', 'segments')):
        yield (p, lambda p=p: getattr(s, p))
    yield ('make_source_mask', lambda: s.make_source_mask(footprint=fp))
    yield ('make_source_mask.size', lambda: s.make_source_mask(size=3))
    yield ('copy', lambda: s.copy())
    yield ('get_areas', lambda: s.get_areas(s.labels))
    yield ('getitem', lambda: s[2:20, 3:25].data_ma)


def ep_SourceCatalog(h):
    from astropy.convolution import convolve

    from photutils.segmentation import SourceCatalog, make_2dgaussian_kernel
    segm = h.add('segment_img', _segm(h))
    kern = make_2dgaussian_kernel(2.0, 3)
    conv = convolve(h.plain, kern)
    conv = h.add_image('convolved_data', conv, unit=True)
    bkg = h.add_image('background', np.full(SHAPE, 0.5) + 0.01 * np.arange(SHAPE[1])[None, :], unit=True)
    cat = yield ('init', lambda: SourceCatalog(h.data, segm, convolved_data=conv, error=h.error, mask=h.mask,
                                               background=bkg, localbkg_width=3))
    if cat is None:
        cat = yield ('init-min', lambda: SourceCatalog(h.data, segm))
        if cat is None:
            return
    for p in _props(cat):
        yield (p, lambda p=p: getattr(cat, p))
    yield ('to_table', lambda: cat.to_table())
    yield ('circular_photometry', lambda: cat.circular_photometry(3.0))
    yield ('kron_photometry', lambda: cat.kron_photometry((2.0, 1.0)))
    yield ('fluxfrac_radius', lambda: cat.fluxfrac_radius(0.5))
    yield ('make_cutouts', lambda: cat.make_cutouts((7, 7)))
    yield ('make_kron_apertures', lambda: cat.make_kron_apertures())
    yield ('make_circular_apertures', lambda: cat.make_circular_apertures(2.0))
    sub = yield ('getitem', lambda: cat[0])
    if sub is not None:
        for p in ('kron_flux', 'centroid_win', 'data_ma', 'fwhm', 'local_background'):
            yield ('getitem.' + p, lambda p=p: getattr(sub, p))
    cat2 = yield ('detection_cat', lambda: SourceCatalog(h.data, segm, error=h.error, detection_cat=cat))
    if cat2 is not None:
        for p in ('kron_flux', 'kron_fluxerr', 'segment_flux', 'centroid', 'local_background'):
            yield ('detection_cat.' + p, lambda p=p: getattr(cat2, p))


def ep_find_peaks(h):
    from photutils.centroids import centroid_com
    from photutils.detection import find_peaks
    thr = h.add_image('threshold', np.full(SHAPE, 5.0), unit=True)
    fp = h.add('footprint', np.array([[0, 1, 0], [1, 1, 1], [0, 1, 0]], bool))
    yield ('', lambda: find_peaks(h.data, thr, box_size=5, mask=h.mask))
    yield ('footprint', lambda: find_peaks(h.data, h.q(5.0), footprint=fp, mask=h.mask, border_width=2,
                                           npeaks=2))
    yield ('centroid', lambda: find_peaks(h.data, thr, box_size=5, mask=h.mask, centroid_func=centroid_com,
                                          error=h.error))


def _finder_ep(make):
    def ep(h):
        f = make(h)
        for k, v in getattr(f, '_held', {}).items():
            h.add(k, v)
        yield ('', lambda: f(h.data, mask=h.mask))
        yield ('find_stars', lambda: f.find_stars(h.data))
    return ep


def _mk_dao(h):
    from photutils.detection import DAOStarFinder
    xy = np.array([[9.0, 10.0], [24.0, 21.0]])
    f = DAOStarFinder(h.q(3.0), 3.5, xycoords=xy, peakmax=h.q(1000.0))
    f._held = {'xycoords': xy}
    return f


def _mk_dao_plain(h):
    from photutils.detection import DAOStarFinder
    return DAOStarFinder(h.q(3.0), 3.5, brightest=2)


def _mk_iraf(h):
    from photutils.detection import IRAFStarFinder
    return IRAFStarFinder(h.q(3.0), 3.5)


def _mk_sf(h, integer=False):
    from photutils.detection import StarFinder
    yy, xx = np.mgrid[-3:4, -3:4]
    k = 0.37 * np.exp(-(xx ** 2 + yy ** 2) / (2 * 1.6 ** 2))     # max != 1: an in-place normalisation shows
    if integer:
        k = np.rint(270 * k).astype(int)
    f = StarFinder(h.q(3.0), k, min_separation=2.0)
    f._held = {'kernel': k}
    return f


def _cutout(h, name='cutout'):
    """The region around source 3 in the representation of the run (a caller-held object)."""
    d = h.data
    c = d[15:28, 17:30]
    if h.rep == 'view':
        return h.add(name, c)          # a view of a view; parents are registered
    if isinstance(c, np.ma.MaskedArray):
        c = np.ma.MaskedArray(np.array(c.data, copy=True), mask=np.array(np.ma.getmaskarray(c), copy=True),
                              fill_value=123.0)
        c.mask[3, 4] = True
        return h.add(name, c)
    return h.add(name, c.copy())


def ep_centroids(h):
    from photutils.centroids import centroid_1dg, centroid_2dg, centroid_com, centroid_quadratic
    c = _cutout(h)
    cm = h.add('cutout_mask', np.array(h.mask[15:28, 17:30], copy=True))
    ce = h.add('cutout_error', h.error[15:28, 17:30].copy())
    yield ('centroid_com', lambda: centroid_com(c, mask=cm))
    yield ('centroid_com.nomask', lambda: centroid_com(c))
    yield ('centroid_quadratic', lambda: centroid_quadratic(c, mask=cm))
    yield ('centroid_quadratic.peak', lambda: centroid_quadratic(c, xpeak=6, ypeak=6, search_boxsize=3,
                                                                 fit_boxsize=3))
    yield ('centroid_1dg', lambda: centroid_1dg(c, error=ce, mask=cm))
    yield ('centroid_1dg.nomask', lambda: centroid_1dg(c))
    yield ('centroid_2dg', lambda: centroid_2dg(c, error=ce, mask=cm))
    yield ('centroid_2dg.nomask', lambda: centroid_2dg(c))


def ep_centroid_sources(h):
    from photutils.centroids import (centroid_1dg, centroid_2dg, centroid_com, centroid_quadratic,
                                     centroid_sources)
    x = h.add('xpos', np.array([9.0, 24.0, 13.0]))
    y = h.add('ypos', np.array([10.0, 21.0, 11.0]))
    fp = h.add('footprint', np.ones((7, 7), bool))
    for fn in (centroid_com, centroid_quadratic, centroid_1dg, centroid_2dg):
        kw = {'error': h.error} if fn in (centroid_1dg, centroid_2dg) else {}
        yield (fn.__name__, lambda fn=fn, kw=kw: centroid_sources(h.data, x, y, box_size=9, mask=h.mask,
                                                                  centroid_func=fn, **kw))
    yield ('footprint', lambda: centroid_sources(h.data, x, y, footprint=fp, mask=h.mask))
    yield ('scalar', lambda: centroid_sources(h.data, 9.0, 10.0, box_size=(7, 9)))


def _profile_ep(kind):
    def ep(h):
        from photutils.profiles import CurveOfGrowth, RadialProfile
        radii = h.add('radii', np.array([0.0, 1.5, 3.0, 4.5, 6.0]) if kind == 'rp'
                      else np.array([1.5, 3.0, 4.5, 6.0]))
        xy = h.add('xycen', np.array([23.6, 21.3]))
        cls = RadialProfile if kind == 'rp' else CurveOfGrowth
        for label, kw in (('', {'error': h.error, 'mask': h.mask}), ('nomask.', {})):
            p = yield (label + 'init', lambda kw=kw: cls(h.data, xy, radii, **kw))
            if p is None:
                continue
            for name in _props(p):
                yield (label + name, lambda name=name: getattr(p, name))
            yield (label + 'normalize', lambda: p.normalize())
            yield (label + 'profile-normalized', lambda: (p.profile, p.profile_error))
            if kind == 'cog':
                yield (label + 'calc_ee_at_radius', lambda: p.calc_ee_at_radius(np.array([2.0, 4.0])))
                yield (label + 'calc_radius_at_ee', lambda: p.calc_radius_at_ee(np.array([0.3, 0.6])))
            yield (label + 'unnormalize', lambda: p.unnormalize())
    return ep


def _psf_setup(h):
    import astropy.units as u
    from astropy.table import QTable

    from photutils.psf import CircularGaussianPRF
    model = h.add('psf_model', CircularGaussianPRF(flux=1.0, fwhm=3.8))
    t = QTable()
    t['x'] = [9.0, 13.0, 24.0]
    t['y'] = [10.0, 11.0, 21.0]
    t['flux'] = h.q(np.array([900.0, 600.0, 1500.0]))
    t['group_id'] = [1, 1, 2]
    t.meta['note'] = 'caller'
    h.add('init_params', t)
    t2 = QTable()
    t2['x_0'] = [9.0, 24.0]
    t2['y_0'] = [10.0, 21.0]
    h.add('init_params_xy', t2)
    return model


def ep_PSFPhotometry(h):
    from photutils.background import LocalBackground
    from photutils.detection import DAOStarFinder
    from photutils.psf import PSFPhotometry, SourceGrouper
    model = _psf_setup(h)
    grouper = h.add('grouper', SourceGrouper(6.0))
    phot = yield ('init', lambda: PSFPhotometry(model, (5, 5), finder=DAOStarFinder(h.q(3.0), 3.8),
                                                grouper=grouper, localbkg_estimator=LocalBackground(5, 9),
                                                aperture_radius=4.0))
    if phot is None:
        return
    for label, kw in (('call', {'init_params': h.init_params, 'mask': h.mask, 'error': h.error}),
                      ('call-xy', {'init_params': h.init_params_xy, 'mask': h.mask}),
                      ('call-finder', {'mask': h.mask})):
        res = yield (label, lambda kw=kw: phot(h.data, **kw))
        if res is None:
            continue
        yield (label + '.make_model_image', lambda: phot.make_model_image(SHAPE, psf_shape=(9, 9),
                                                                         include_localbkg=True))
        yield (label + '.make_residual_image', lambda: phot.make_residual_image(h.data, psf_shape=(9, 9)))


def ep_IterativePSFPhotometry(h):
    from photutils.detection import DAOStarFinder
    from photutils.psf import IterativePSFPhotometry, SourceGrouper
    model = _psf_setup(h)
    for mode in ('new', 'all'):
        phot = yield (mode + '.init', lambda mode=mode: IterativePSFPhotometry(
            model, (5, 5), DAOStarFinder(h.q(3.0), 3.8), grouper=SourceGrouper(6.0), aperture_radius=4.0,
            maxiters=2, mode=mode))
        if phot is None:
            continue
        kws = {'init_params': h.init_params, 'mask': h.mask, 'error': h.error} if mode == 'new' \
            else {'mask': h.mask}
        res = yield (mode + '.call', lambda kws=kws: phot(h.data, **kws))
        if res is None:
            continue
        yield (mode + '.make_model_image', lambda: phot.make_model_image(SHAPE, psf_shape=(9, 9)))
        yield (mode + '.make_residual_image', lambda: phot.make_residual_image(h.data, psf_shape=(9, 9)))


def ep_make_model_image(h):
    from astropy.table import Table

    from photutils.datasets import make_model_image
    from photutils.psf import CircularGaussianPRF, make_psf_model_image
    model = h.add('model', CircularGaussianPRF(flux=1.0, fwhm=3.0))
    t = h.add('params_table', Table({'x_0': [9.0, 24.0, -20.0], 'y_0': [10.0, 21.0, 5.0],
                                     'flux': [100.0, 50.0, 10.0], 'fwhm': [3.0, 2.5, 3.0],
                                     'local_bkg': [0.1, 0.2, 0.3]}))
    yield ('', lambda: make_model_image(SHAPE, model, t, model_shape=(9, 9)))
    yield ('bbox', lambda: make_model_image(SHAPE, model, t, bbox_factor=4.0))
    yield ('make_psf_model_image', lambda: make_psf_model_image(SHAPE, model, 3, model_shape=(7, 7),
                                                               flux=(10, 20), seed=1))


def ep_fit_gaussian(h):
    from photutils.psf import fit_2dgaussian, fit_fwhm
    xy = h.add('xypos', np.array([[9.0, 10.0], [24.0, 21.0]]))
    yield ('fit_2dgaussian', lambda: fit_2dgaussian(h.data, xypos=xy, fwhm=3.5, fit_shape=(7, 7), mask=h.mask,
                                                   error=h.error))
    yield ('fit_fwhm', lambda: fit_fwhm(h.data, xypos=xy, fit_shape=7, mask=h.mask, error=h.error))


def ep_calc_total_error(h):
    from photutils.utils import calc_total_error
    be = h.add_image('bkg_error', np.full(SHAPE, 0.4), unit=True)
    if h.unit is not None:
        import astropy.units as u
        g = h.add('effective_gain', np.full(SHAPE, 2.0) * (u.electron / h.unit))
    else:
        g = h.add_image('effective_gain', np.full(SHAPE, 2.0))
    yield ('', lambda: calc_total_error(h.data, be, g))
    yield ('scalar-gain', lambda: calc_total_error(h.data, be, g[0, 0] if h.unit is not None else 2.0))


def ep_data_properties(h):
    from photutils.morphology import data_properties, gini
    c = _cutout(h)
    cm = h.add('cutout_mask', np.array(h.mask[15:28, 17:30], copy=True))
    bkg = h.add('background', h.q(np.full((13, 13), 0.6)))
    yield ('gini', lambda: gini(c, mask=cm))
    yield ('gini.nomask', lambda: gini(c))
    cat = yield ('init', lambda: data_properties(c, mask=cm, background=bkg))
    if cat is None:
        cat = yield ('init-min', lambda: data_properties(c))
        if cat is None:
            return
    for p in _props(cat):
        yield (p, lambda p=p: getattr(cat, p))


def ep_Ellipse(h):
    from photutils.isophote import Ellipse, EllipseGeometry
    img = h.data
    geo = h.add('geometry', EllipseGeometry(23.6, 21.3, 4.0, 0.1, 0.3))
    e = yield ('init', lambda: Ellipse(img, geo))
    if e is None:
        return
    yield ('fit_image', lambda: e.fit_image(sma0=4.0, minsma=2.0, maxsma=6.0, step=0.5))
    yield ('fit_isophote', lambda: e.fit_isophote(4.0))
    yield ('fit_image-fix', lambda: e.fit_image(sma0=4.0, minsma=2.0, maxsma=6.0, step=1.0, fix_center=True,
                                                linear=True))
    yield ('find_center-free', lambda: Ellipse(img).fit_image(sma0=4.0, minsma=3.0, maxsma=5.0, step=0.5))


def ep_image_models(h):
    from astropy.nddata import NDData

    from photutils.psf import GriddedPSFModel, ImagePSF
    yy, xx = np.mgrid[0:9, 0:9]
    psf = np.exp(-((xx - 4) ** 2 + (yy - 4) ** 2) / 4.0)
    if h.cond == 'neg':
        psf = psf - 0.05
    arr = h.add('psf_data', psf / psf.sum())
    m = yield ('ImagePSF.init', lambda: ImagePSF(arr, flux=2.0, x_0=4.2, y_0=3.9))
    if m is not None:
        h.add('ImagePSF', m)
        yield ('ImagePSF.eval', lambda: m(xx, yy))
        yield ('ImagePSF.copy', lambda: m.copy())
    grid = np.array([arr * (1 + 0.1 * i) for i in range(4)])
    nd = h.add('nddata', NDData(grid, meta={'grid_xypos': [(0, 0), (20, 0), (0, 20), (20, 20)],
                                             'oversampling': 1}))
    g = yield ('GriddedPSFModel.init', lambda: GriddedPSFModel(nd))
    if g is not None:
        h.add('GriddedPSFModel', g)
        yield ('GriddedPSFModel.eval', lambda: g.evaluate(xx, yy, 3.0, 4.5, 4.5))
        yield ('GriddedPSFModel.call', lambda: g(xx + 10.0, yy + 10.0))
        yield ('GriddedPSFModel.copy-eval', lambda: g.copy().evaluate(xx, yy, 1.0, 15.0, 2.0))
    # forced photometry: models whose position parameters are fixed, handed to the consumers that
    # work on a copy of the model and set x_0 / y_0 / flux per source
    from astropy.table import Table

    from photutils.datasets import make_model_image
    from photutils.psf import PSFPhotometry
    rows = h.add('params_table', Table({'x_0': [4.3, 9.1], 'y_0': [5.2, 8.4], 'flux': [10.0, 20.0]}))
    for label, build in (('ImagePSF', lambda: ImagePSF(arr, flux=1.0, x_0=0.0, y_0=0.0)),
                         ('GriddedPSFModel', lambda: GriddedPSFModel(nd))):
        try:
            mf = build()
        except Exception:  # noqa: BLE001 - construction failures are reported by the entries above
            continue
        mf.x_0.fixed = True
        mf.y_0.fixed = True
        h.add(label + '_fixed_xy', mf)
        yield (f'make_model_image({label} fixed-xy)',
               lambda mf=mf: make_model_image((15, 15), mf, rows, model_shape=(7, 7)))
        img = make_model_image((15, 15), mf.copy(), rows, model_shape=(7, 7)) + 0.5
        yield (f'PSFPhotometry({label} fixed-xy)',
               lambda mf=mf, img=img: PSFPhotometry(mf, (5, 5))(img, init_params=rows))


def ep_extract_stars(h):
    from astropy.nddata import NDData
    from astropy.table import Table

    from photutils.psf import extract_stars
    d = h.data
    if isinstance(d, np.ma.MaskedArray):
        nd = NDData(np.asarray(d.data), mask=np.ma.getmaskarray(d))
    elif h.unit is not None:
        nd = NDData(d.value, unit=h.unit)
    else:
        nd = NDData(d)
    h.add('nddata', nd)
    t = h.add('catalog', Table({'x': [9.3, 23.6, 1.0], 'y': [10.2, 21.3, 1.0]}))
    stars = yield ('', lambda: extract_stars(nd, t, size=9))
    if stars is not None and len(stars):
        yield ('star.props', lambda: (stars[0].data, stars[0].weights, stars[0].estimate_flux()))


def ep_utils(h):
    from photutils.psf.matching import SplitCosineBellWindow, create_matching_kernel, resize_psf
    from photutils.utils import CutoutImage, ShepardIDWInterpolator
    c = yield ('CutoutImage', lambda: CutoutImage(h.data, (21, 23), (7, 9)))
    if c is not None:
        yield ('CutoutImage.props', lambda: (c.data, c.bbox_original, c.slices_cutout, c.xyorigin))
    yield ('CutoutImage.partial', lambda: CutoutImage(h.data, (0, 1), (7, 7), mode='partial', fill_value=-9.0,
                                                      copy=True).data)
    coords = h.add('coordinates', np.array([[0.0, 0.0], [1.0, 0.0], [0.0, 2.0], [3.0, 3.0], [2.0, 1.0]]))
    vals = h.add('values', np.array([1.0, 2.0, np.nan if h.cond == 'nan' else 3.0, 4.0, -5.0]))
    wts = h.add('weights', np.array([1.0, 0.5, 1.0, 2.0, 1.0]))
    posn = h.add('eval_positions', np.array([[0.5, 0.5], [1.0, 0.0], [2.5, 2.0]]))
    f = yield ('ShepardIDW.init', lambda: ShepardIDWInterpolator(coords, vals, weights=wts))
    if f is not None:
        yield ('ShepardIDW.call', lambda: f(posn, n_neighbors=3, power=2.0, reg=0.1))
    yy, xx = np.mgrid[0:15, 0:15]
    p1 = np.exp(-((xx - 7) ** 2 + (yy - 7) ** 2) / 6.0)
    p2 = np.exp(-((xx - 7) ** 2 + (yy - 7) ** 2) / 12.0)
    p1 = h.add('source_psf', p1 / p1.sum() * (3.0 if h.cond == 'neg' else 1.0))
    p2 = h.add('target_psf', p2 / p2.sum())
    yield ('create_matching_kernel', lambda: create_matching_kernel(p1, p2, window=SplitCosineBellWindow(0.2, 0.6)))
    yield ('create_matching_kernel.nowindow', lambda: create_matching_kernel(p1, p2))
    yield ('resize_psf', lambda: resize_psf(p1, 0.1, 0.05))


def ep_nddata(h):
    """NDData containers (data / mask / StdDevUncertainty / unit) where the API accepts them."""
    from astropy.nddata import NDData, StdDevUncertainty

    from photutils.aperture import ApertureStats, CircularAperture, aperture_photometry
    from photutils.background import Background2D
    from photutils.psf import PSFPhotometry
    d, e = h.data, h.error
    unit = h.unit
    if unit is not None:
        d, e = d.value, e.value
    if isinstance(d, np.ma.MaskedArray):
        d = d.data
    nd = h.add('nddata', NDData(d, uncertainty=StdDevUncertainty(e), mask=h.mask, unit=unit,
                                meta={'origin': 'caller'}))
    ap = h.add('aperture', CircularAperture([(9.3, 10.2), (23.6, 21.3)], r=4.0))
    yield ('aperture_photometry', lambda: aperture_photometry(nd, ap))
    st = yield ('ApertureStats', lambda: ApertureStats(nd, ap))
    if st is not None:
        yield ('ApertureStats.props', lambda: (st.sum, st.sum_err, st.centroid, st.fwhm, st.median))
    b = yield ('Background2D', lambda: Background2D(nd, (8, 8), exclude_percentile=50.0))
    if b is not None:
        yield ('Background2D.maps', lambda: (b.background, b.background_rms))
    model = _psf_setup(h)
    phot = PSFPhotometry(model, (5, 5), aperture_radius=4.0)
    res = yield ('PSFPhotometry', lambda: phot(nd, init_params=h.init_params))
    if res is not None:
        yield ('PSFPhotometry.make_residual_image', lambda: phot.make_residual_image(nd, psf_shape=(9, 9)))


ENTRIES = {
    'aperture_photometry': ep_aperture_photometry,
    'PixelAperture': ep_aperture_methods,
    'ApertureStats': ep_ApertureStats,
    'Background2D': ep_Background2D,
    'BackgroundEstimators': ep_bkg_estimators,
    'LocalBackground': ep_LocalBackground,
    'detect_threshold': ep_detect_threshold,
    'detect_sources': ep_detect_sources,
    'deblend_sources': ep_deblend_sources,
    'SourceFinder': ep_SourceFinder,
    'SegmentationImage': ep_SegmentationImage,
    'SourceCatalog': ep_SourceCatalog,
    'find_peaks': ep_find_peaks,
    'DAOStarFinder': _finder_ep(_mk_dao_plain),
    'DAOStarFinder-xycoords': _finder_ep(_mk_dao),
    'IRAFStarFinder': _finder_ep(_mk_iraf),
    'StarFinder': _finder_ep(_mk_sf),
    'StarFinder-intkernel': _finder_ep(lambda h: _mk_sf(h, integer=True)),
    'centroids': ep_centroids,
    'centroid_sources': ep_centroid_sources,
    'RadialProfile': _profile_ep('rp'),
    'CurveOfGrowth': _profile_ep('cog'),
    'PSFPhotometry': ep_PSFPhotometry,
    'IterativePSFPhotometry': ep_IterativePSFPhotometry,
    'make_model_image': ep_make_model_image,
    'fit_2dgaussian': ep_fit_gaussian,
    'calc_total_error': ep_calc_total_error,
    'data_properties': ep_data_properties,
    'Ellipse': ep_Ellipse,
    'image_models': ep_image_models,
    'extract_stars': ep_extract_stars,
    'utils': ep_utils,
    'NDData': ep_nddata,
}
# the defect F22 (geometry flags written by fit_image) has ONE key shared with C09/C20
SPECIAL_KEYS = {('Ellipse', 'geometry'): 'ellipse/fit_image-config-leak'}
# entries whose label already names the public function
FUNC_LABEL = {'centroids', 'image_models', 'utils', 'fit_2dgaussian', 'BackgroundEstimators'}


def _key(entry, label, arg):
    if (entry, arg) in SPECIAL_KEYS and 'fit_image' in label:
        return SPECIAL_KEYS[(entry, arg)]
    arg = arg.replace('.parent', '-parent')
    label = label.split('[')[0]          # 'init[box=(5, 33)]' -> 'init': one key for the whole lattice
    arg = {'cutout': 'data', 'cutout_mask': 'mask', 'cutout_error': 'error'}.get(arg, arg)
    if entry in FUNC_LABEL:
        fn = label.split('.')[0] if entry != 'image_models' else label
        return f'{fn}/{arg}-modified'
    base = label.split('.')[0] if '.' in label and entry in ('PSFPhotometry', 'IterativePSFPhotometry') else label
    if label in ('', 'init'):
        return f'{entry}/{arg}-modified'
    if entry in ('PSFPhotometry', 'IterativePSFPhotometry'):
        tail = label.split('.')[-1]
        tail = 'call' if tail.startswith('call') else tail
        return f'{entry}.{tail}/{arg}-modified'
    del base
    return f'{entry}.{label}/{arg}-modified'


def run_entry(entry, rep, cond, dseed, on_step=None, dtype=None):
    """Run one entry point; returns list of (label, arg, message) modifications."""
    h = H(rep, cond, dseed)
    if dtype is not None:
        d = h.plain if np.dtype(dtype).kind in 'iu' else h.base
        h.add('data', np.asarray(d).astype(dtype))
    mods = []
    gen = ENTRIES[entry](h)
    snaps = {}
    try:
        step = next(gen)
    except StopIteration:
        return mods
    while True:
        label, thunk = step
        for k, v in h.held.items():        # objects registered since the last step
            if k not in snaps:
                snaps[k] = snap(v)
        exc = None
        res = None
        try:
            res = thunk()
        except Exception as e:  # noqa: BLE001
            exc = e
        step_mods = []
        for k, v in list(h.held.items()):
            if k not in snaps:
                continue
            now = snap(v)
            r = sdiff(snaps[k], now, k)
            if r:
                step_mods.append((label, k, r + (f' (the step raised {type(exc).__name__})' if exc else '')))
                snaps[k] = now          # re-baseline: report each modification once
        changed = {m[1] for m in step_mods}
        # a write through a view shows in the view and in its parent: report it once (as the view);
        # a parent changed while the view is intact (write outside the view) is reported as '<arg>-parent'
        mods += [m for m in step_mods if not (m[1].endswith('.parent') and m[1][:-7] in changed)]
        if on_step:
            on_step(label, exc)
        try:
            step = gen.send(res)
        except StopIteration:
            break
    return mods


def _combos(ctx):
    for entry in ENTRIES:
        for rep in REPS:
            for cond in CONDS:
                yield entry, rep, cond, None
        if ctx.thorough:
            for rep in REPS:
                yield entry, rep, 'nanneg', None
            for cond in CONDS + ['nanneg']:
                yield entry, 'fortran', cond, None
            for dt in ('float32', 'int32'):
                for cond in ('clean', 'neg'):
                    yield entry, 'nd', cond, dt


def run(ctx):
    dseed = int(ctx.rng.integers(1, 2 ** 30))
    raised = {}
    first = True
    combos = [(c, dseed) for c in _combos(ctx)]
    if ctx.thorough:
        combos += [((e, r, c, None), dseed + 1) for e in ENTRIES for r in REPS for c in CONDS]
    for (entry, rep, cond, dt), dseed in combos:
        tag = rep if dt is None else dt

        def on_step(label, exc, entry=entry, tag=tag, cond=cond, dseed=dseed):
            ctx.case((entry, label, tag, cond, dseed), nontrivial=exc is None, contract='caller-held objects unchanged',
                     sample=None)
            if exc is not None:
                raised.setdefault(entry, {}).setdefault(f'{type(exc).__name__}', 0)
                raised[entry][type(exc).__name__] += 1

        mods = run_entry(entry, rep, cond, dseed, on_step, dt)
        if first:
            ctx.samples.append({'entry': entry, 'rep': rep, 'cond': cond})
            first = False
        for label, arg, msg in mods:
            ctx.check(False, _key(entry, label, arg),
                      f'{entry} step {label or "call"!r} [data as {tag}, {cond}] modified caller-held {msg}',
                      {'entry': entry, 'rep': rep, 'cond': cond, 'dseed': dseed, 'dtype': dt, 'step': label,
                       'arg': arg})
    ctx.note('not counted as failures (outside the object kinds enumerated by the property): Ellipse.__init__ / '
             'set_threshold store centerer_threshold on the caller-supplied EllipseGeometry; Background2D.__init__ '
             'sets sigma_clip=None on caller-supplied bkg_estimator / bkgrms_estimator objects (F25)')
    for e, d in raised.items():
        ctx.note(f'{e}: steps that raised (still checked): {d}')


def replay(case):
    try:
        mods = run_entry(case['entry'], case['rep'], case['cond'], case['dseed'], None, case.get('dtype'))
    except Exception as e:  # noqa: BLE001
        return 'error', f'{type(e).__name__}: {e}', None
    hit = [m for m in mods if m[0] == case['step'] and m[1] == case['arg']]
    if hit:
        return 'confirmed', hit[0][2], [list(m[:2]) for m in mods]
    if mods:
        return 'confirmed', f'other step modified: {mods[0]}', [list(m[:2]) for m in mods]
    return 'spurious', 'no caller-held object was modified', []
