"""C19 -- radial profiles and curves of growth are consistent with aperture photometry.

Bounded run-time contract driver (engine E4).  Oracles are written from the property statement:
pixel / sub-pixel loops for method='center' and 'subpixel', a rigorous inside/outside pixel bracket and
the analytic area for method='exact', CircularAperture photometry computed directly by the driver, the
difference formulas written out, a reference model of the normalisation state (raw array divided by the
product of the normalisations since the last unnormalize) and the definition of the maximal strictly
increasing prefix for the encircled-energy interpolators.
"""
import itertools
import math

import numpy as np

BOUNDS = (
    "Images 9x11 .. 13x15 float64 (seeded positive noise + Gaussian; constant; non-negative; Gaussian minus "
    "ring), 14 (quick) / 22 (thorough) centres on a lattice: integer, half-integer, fractional, 0.2 px from "
    "an edge/corner, on the edge, 0.5-2.5 px off the image and one far off (no overlap); 4 (quick) / 6 "
    "non-uniform radii arrays (RadialProfile ones start at 0 or at 0.5; CurveOfGrowth ones are > 0); methods "
    "exact, center, subpixel with subpixels in {1,3,5} (quick: {1,3}); input variants: plain, partial bool "
    "mask, error map, mask+error map with NaN/inf in data and error (automatic masking).  Tolerances: "
    "rtol 1e-10 / atol 1e-10*max|data|*npix against the loop oracles and direct aperture photometry, "
    "1e-9 for the constant-image clause (bins >= 0.2 px wide), monotonicity slack 1e-10*total, history "
    "Non-square part: images (40,100), (100,40), (23,61) (+(61,23), (30,31) thorough), 10 centres (interior, "
    "off each of the four edges separately, off the short-axis high edge while within the long-axis length, corners), "
    "radii [0, 2.5, 6, 10.5, 14.2], exact/center/subpixel(3), no mask / 10% mask, constant 3.25 / ramp+noise; "
    "exact-method oracle = closed-form circle-pixel overlap per pixel, tol 1e-9*(pi r^2 + 1).  History "
    "comparisons rtol 1e-12 per rescaling (<= 6 rescalings: 1e-11), interpolator knots rtol 1e-9.  "
    "Histories: ALL sequences of length <= 5 over {normalize('max'), normalize('sum'), unnormalize, first "
    "read of profile, first read of profile_error, first read of data_profile} that contain at least one normalize "
    "(each read at most once; 4366 sequences for RadialProfile, 2050 without data_profile for CurveOfGrowth), each "
    "on a fresh object, on 2 scenes per class (quick; the 2nd CurveOfGrowth scene with length <= 4) / 4+3 scenes "
    "(thorough); after every sequence all arrays are read, then unnormalize is called and all arrays are read again."
)
RULE = (
    "Photometry cases are the Cartesian product scene x centre x radii x method x input variant (key = that "
    "tuple + class); a case is non-trivial when at least one aperture overlaps the image (finite sum) and, for "
    "the pixel-loop oracle, no (sub)pixel centre lies within 1e-9 of the aperture edge (ties are skipped "
    "because the statement does not fix the boundary convention).  History cases are exhaustive (key = class, "
    "scene, event sequence); EE cases are (scene, centre, radii, method, normalised?) with the monotone "
    "prefix length recorded.  The seed only changes the pixel noise of the random scenes."
)

ARR = ('profile', 'profile_error', 'data_profile')


class _Skip(Exception):
    pass


# --------------------------------------------------------------------------------------------------
# scenes and lattices
# --------------------------------------------------------------------------------------------------
def _gauss(shape, xc, yc, sig, amp):
    yy, xx = np.mgrid[0:shape[0], 0:shape[1]]
    return amp * np.exp(-((xx - xc) ** 2 + (yy - yc) ** 2) / (2.0 * sig * sig))


def _scene(name, rng):
    if name == 'noise+gauss':
        shape = (11, 13)
        d = rng.uniform(0.5, 2.0, shape) + _gauss(shape, 6.3, 4.8, 1.7, 20.0)
    elif name == 'ramp':
        shape = (9, 11)
        yy, xx = np.mgrid[0:shape[0], 0:shape[1]]
        d = 1.0 + 0.37 * xx + 1.91 * yy + 0.05 * xx * yy
    elif name == 'signed':
        shape = (13, 15)
        d = rng.normal(0.0, 1.0, shape) + _gauss(shape, 7.0, 6.0, 2.0, 10.0)
    else:
        raise ValueError(name)
    return np.ascontiguousarray(d, dtype=float)


def _variant(name, data, rng_local):
    """Return (data, error, mask) for an input variant; deterministic given rng_local."""
    ny, nx = data.shape
    data = data.copy()
    err = None
    mask = None
    if name in ('mask', 'mask+err+nan'):
        mask = np.zeros(data.shape, bool)
        mask[rng_local.random(data.shape) < 0.2] = True
        mask[ny // 2, nx // 2 + 1] = True
        mask[0, :2] = True
    if name in ('err', 'mask+err+nan', 'tiny+err'):
        err = 0.3 + rng_local.random(data.shape)
    if name == 'tiny+err':
        # an image in physical flux units: everything five orders of magnitude smaller (the
        # property is scale-free: errors of 1e-5 are errors, not round-off)
        data = data * 1.0e-5
        err = err * 1.0e-5
        mask = np.zeros(data.shape, bool)
        mask[ny // 2, :] = True
    if name == 'mask+err+nan':
        data[ny // 2 - 1, nx // 2] = np.nan      # unmasked non-finite data  -> auto-masked
        data[1, 1] = np.inf
        err[ny // 2, nx // 2 - 1] = np.nan       # non-finite error -> auto-masked
        err[2, nx - 2] = np.inf
        j = np.argwhere(mask)[0]
        data[j[0], j[1]] = np.nan                # non-finite under the input mask
    return data, err, mask


def _centres(shape, thorough):
    ny, nx = shape
    c = [(nx // 2, ny // 2), (nx // 2 + 0.5, ny // 2 - 0.5), (5.31, 4.27), (3.0, 4.5),
         (0.2, 0.3), (nx - 1.2, ny - 1.3), (0.0, ny // 2), (nx - 1.0, 0.0),
         (-0.5, 2.0), (nx - 0.5, ny - 0.5), (-1.5, 2.2), (nx + 1.0, ny - 0.5),
         (nx // 2 + 0.1, -2.5), (nx + 30.0, ny + 30.0)]
    if thorough:
        c += [(1.0, 1.0), (nx - 2.0, ny - 2.0), (2.5, 2.5), (nx // 2 - 0.25, ny // 2 + 0.75),
              (-0.49, -0.49), (nx - 0.51, 3.3), (4.999999, 5.000001), (nx / 2.0, ny + 1.0)]
    return [(float(a), float(b)) for a, b in c]


def _radii_sets(thorough):
    r = [('rp0', [0.0, 0.7, 1.3, 2.9, 3.1, 5.2]),
         ('rp.5', [0.5, 1.0, 1.5, 4.0]),
         ('rp-fine', [0.0, 0.45, 0.9, 2.2, 2.45, 6.4]),
         ('rp-2', [0.0, 3.3])]
    if thorough:
        r += [('rp-log', [0.25, 0.5, 1.0, 2.0, 4.0, 8.0]),
              ('rp-unit', [0.0, 1.0, 2.0, 3.0, 4.0, 5.0])]
    return r


def _methods(thorough):
    m = [('exact', 5), ('center', 5), ('subpixel', 1), ('subpixel', 3)]
    if thorough:
        m.append(('subpixel', 5))
    return m


# --------------------------------------------------------------------------------------------------
# oracles
# --------------------------------------------------------------------------------------------------
def total_mask(data, err, mask):
    """mask OR non-finite data OR non-finite error (statement: 'unmasked data', automatic masking)."""
    m = ~np.isfinite(data)
    if err is not None:
        m = m | ~np.isfinite(err)
    if mask is not None:
        m = m | mask
    return m


def loop_photometry(data, err, tmask, xc, yc, r, s):
    """Sub-pixel-centre counting by definition (s=1 -> method='center').

    Returns (sum, err, area, tie) with tie=True when a sub-pixel centre lies within 1e-9 of the edge.
    """
    ny, nx = data.shape
    tot = 0.0
    var = 0.0
    area = 0.0
    tie = False
    r2 = r * r
    off = [(-0.5 + (k + 0.5) / s) for k in range(s)]
    for i in range(ny):
        # quick row rejection (pure speed-up, conservative)
        if abs(i - yc) - 0.5 > r:
            continue
        for j in range(nx):
            if abs(j - xc) - 0.5 > r:
                continue
            cnt = 0
            for oy in off:
                dy = (i + oy) - yc
                for ox in off:
                    dx = (j + ox) - xc
                    q = dx * dx + dy * dy
                    if abs(q - r2) < 1e-9:
                        tie = True
                    if q < r2:
                        cnt += 1
            if cnt == 0 or tmask[i, j]:
                continue
            f = cnt / float(s * s)
            tot += f * data[i, j]
            area += f
            if err is not None:
                var += f * err[i, j] ** 2
    return tot, (math.sqrt(var) if err is not None else None), area, tie


def bracket_exact(data, tmask, xc, yc, r):
    """Rigorous bracket for exact overlap weights on non-negative data.

    A pixel wholly inside the circle has weight 1, a pixel with no point inside has weight 0, all
    others are in [0, 1].  Returns (lo_sum, hi_sum, lo_area, hi_area).
    """
    ny, nx = data.shape
    lo = hi = alo = ahi = 0.0
    for i in range(ny):
        for j in range(nx):
            if tmask[i, j]:
                continue
            # farthest corner
            fx = max(abs(j - 0.5 - xc), abs(j + 0.5 - xc))
            fy = max(abs(i - 0.5 - yc), abs(i + 0.5 - yc))
            # nearest point of the pixel square
            nxp = max(j - 0.5 - xc, 0.0, xc - (j + 0.5))
            nyp = max(i - 0.5 - yc, 0.0, yc - (i + 0.5))
            if math.hypot(fx, fy) <= r:
                lo += data[i, j]
                alo += 1.0
            if math.hypot(nxp, nyp) < r:
                hi += data[i, j]
                ahi += 1.0
    return lo, hi, alo, ahi


def direct_photometry(data, err, tmask, xy, radii, method, s):
    """CircularAperture photometry computed directly by the driver (0 for r <= 0)."""
    from photutils.aperture import CircularAperture
    fl, fe, ar = [], [], []
    for r in radii:
        if r <= 0:
            fl.append(0.0)
            fe.append(0.0)
            ar.append(0.0)
            continue
        ap = CircularAperture(xy, r)
        f, e = ap.do_photometry(data, error=err, mask=tmask, method=method, subpixels=s)
        a = ap.area_overlap(data, mask=tmask, method=method, subpixels=s)
        fl.append(float(f[0]))
        fe.append(float(e[0]) if err is not None else np.nan)
        ar.append(float(a))
    return np.array(fl), np.array(fe), np.array(ar)


def _close(a, b, rtol, atol):
    a = np.asarray(a, float)
    b = np.asarray(b, float)
    if a.shape != b.shape:
        return False
    return bool(np.allclose(a, b, rtol=rtol, atol=atol, equal_nan=True))


def _L(x):
    if x is None:
        return None
    x = np.asarray(x)
    if x.dtype == bool:
        return x.astype(int).tolist()
    return [[('nan' if v != v else ('inf' if v == np.inf else ('-inf' if v == -np.inf else float(v))))
             for v in row] for row in np.atleast_2d(x)]


def _unL(x, kind=float):
    if x is None:
        return None
    a = np.array([[float(v) if not isinstance(v, str) else float(v) for v in row] for row in x], dtype=float)
    if kind is bool:
        return a.astype(bool)
    return a


def _mkcase(kind, data, err, mask, xy, radii, method, s, **extra):
    c = {'kind': kind, 'data': _L(data), 'error': _L(err), 'mask': _L(mask), 'xycen': list(xy),
         'radii': list(map(float, radii)), 'method': method, 'subpixels': s}
    c.update(extra)
    return c


# --------------------------------------------------------------------------------------------------
# part 1: photometry link
# --------------------------------------------------------------------------------------------------
def check_photometry(ctx, data, err, mask, xy, radii, method, s, tag, record=True):
    """Evaluate the CurveOfGrowth / RadialProfile vs oracle contracts for one configuration.

    Returns a list of (key, what) failures (also recorded on ctx when record=True).
    """
    from photutils.profiles import CurveOfGrowth, RadialProfile
    fails = []

    def chk(ok, key, what):
        if not ok:
            fails.append((key, what))
            if record:
                ctx.check(False, key, what, _mkcase('phot', data, err, mask, xy, radii, method, s))
        return ok

    tm = total_mask(data, err, mask)
    dclean = np.where(tm, 0.0, data)
    eclean = None if err is None else np.where(tm, 0.0, err)
    scale = float(np.max(np.abs(dclean))) * data.size + 1.0
    rtol, atol = 1e-10, 1e-10 * scale
    mask_in = None if mask is None else mask.copy()

    cog_radii = [r for r in radii if r > 0]
    # ---- direct aperture photometry (driver-side) on all radii
    dfl, dfe, dar = direct_photometry(data, err, tm, xy, radii, method, s)
    # ---- loop oracle (center / subpixel) and bracket (exact) per radius
    ofl = np.full(len(radii), np.nan)
    ofe = np.full(len(radii), np.nan)
    oar = np.full(len(radii), np.nan)
    ok_or = np.zeros(len(radii), bool)       # oracle usable for this radius
    for k, r in enumerate(radii):
        if r <= 0:
            ofl[k] = ofe[k] = oar[k] = 0.0
            ok_or[k] = True
            continue
        if not np.isfinite(dfl[k]):
            continue                          # no overlap with the image: aperture semantics (C02) give NaN
        if method in ('center', 'subpixel'):
            ss = 1 if method == 'center' else s
            t, e, a, tie = loop_photometry(dclean, eclean, tm, xy[0], xy[1], r, ss)
            if not tie:
                ofl[k], oar[k] = t, a
                ofe[k] = e if e is not None else np.nan
                ok_or[k] = True
    nontriv = bool(np.any(np.isfinite(dfl[np.array(radii) > 0])))

    # ======== CurveOfGrowth
    cog = None
    try:
        if len(cog_radii) < 2:
            raise _Skip
        cog = CurveOfGrowth(data, xy, cog_radii, error=err, mask=mask, method=method, subpixels=s)
        cp, ce, ca, cr = (np.array(cog.profile, float), np.array(cog.profile_error, float),
                          np.array(cog.area, float), np.array(cog.radius, float))
    except _Skip:
        pass
    except Exception as exc:  # noqa: BLE001
        chk(False, 'cog/raises', f'CurveOfGrowth raised {type(exc).__name__}: {exc} ({tag})')
        cog = None
    if cog is not None:
        ctx.case(('cog', tag), nontrivial=nontriv, contract='cog.profile==aperture-sum')
        sel = np.array(radii) > 0
        chk(_close(cr, np.array(cog_radii), 0, 0), 'cog/radius', f'CurveOfGrowth.radius != radii ({tag})')
        chk(_close(cp, dfl[sel], rtol, atol), 'cog/profile-vs-direct-aperture',
            f'CurveOfGrowth.profile {cp} != CircularAperture sums {dfl[sel]} ({tag})')
        chk(_close(ca, dar[sel], rtol, 1e-10), 'cog/area-vs-direct-aperture',
            f'CurveOfGrowth.area {ca} != area_overlap {dar[sel]} ({tag})')
        if err is not None:
            chk(_close(ce, dfe[sel], rtol, atol), 'cog/error-vs-direct-aperture',
                f'CurveOfGrowth.profile_error {ce} != aperture errors {dfe[sel]} ({tag})')
        else:
            chk(ce.shape == (0,), 'cog/error-without-error-map',
                f'CurveOfGrowth.profile_error has shape {ce.shape} without error map ({tag})')
        oo = ok_or[sel]
        if np.any(oo):
            ctx.case(('cog-loop', tag), nontrivial=nontriv, contract='cog.profile==pixel-loop')
            chk(_close(cp[oo], ofl[sel][oo], rtol, atol), f'cog/profile-vs-pixel-loop/{method}',
                f'CurveOfGrowth.profile {cp[oo]} != pixel-loop sums {ofl[sel][oo]} ({tag})')
            chk(_close(ca[oo], oar[sel][oo], rtol, 1e-10), f'cog/area-vs-pixel-loop/{method}',
                f'CurveOfGrowth.area {ca[oo]} != pixel-loop areas {oar[sel][oo]} ({tag})')
            if err is not None:
                chk(_close(ce[oo], ofe[sel][oo], rtol, atol), f'cog/error-vs-pixel-loop/{method}',
                    f'CurveOfGrowth.profile_error {ce[oo]} != pixel-loop errors {ofe[sel][oo]} ({tag})')
        if method == 'exact' and np.all(dclean >= 0):
            ctx.case(('cog-bracket', tag), nontrivial=nontriv, contract='cog.exact-in-pixel-bracket')
            for k, r in enumerate(cog_radii):
                if not np.isfinite(cp[k]):
                    continue
                lo, hi, alo, ahi = bracket_exact(dclean, tm, xy[0], xy[1], r)
                chk(lo - atol <= cp[k] <= hi + atol and alo - 1e-9 <= ca[k] <= ahi + 1e-9,
                    'cog/exact-outside-pixel-bracket',
                    f'exact sum/area {cp[k]}/{ca[k]} outside [{lo},{hi}]/[{alo},{ahi}] at r={r} ({tag})')
                # analytic area when the circle is wholly inside the image and nothing is masked nearby
                inside = (xy[0] - r >= -0.5 and xy[0] + r <= data.shape[1] - 0.5
                          and xy[1] - r >= -0.5 and xy[1] + r <= data.shape[0] - 0.5)
                if inside and not np.any(tm):
                    chk(abs(ca[k] - math.pi * r * r) <= 1e-9 * max(1.0, r * r), 'cog/exact-area-not-pi-r2',
                        f'exact area {ca[k]} != pi r^2 = {math.pi * r * r} at r={r} ({tag})')

    # ======== RadialProfile
    try:
        rp = RadialProfile(data, xy, radii, error=err, mask=mask, method=method, subpixels=s)
        pp, pe, pa, pr = (np.array(rp.profile, float), np.array(rp.profile_error, float),
                          np.array(rp.area, float), np.array(rp.radius, float))
    except Exception as exc:  # noqa: BLE001
        chk(False, 'rp/raises', f'RadialProfile raised {type(exc).__name__}: {exc} ({tag})')
        rp = None
    if rp is not None:
        ctx.case(('rp', tag), nontrivial=nontriv, contract='rp.profile==dsum/darea')
        ra = np.array(radii, float)
        chk(_close(pr, (ra[:-1] + ra[1:]) / 2.0, 1e-15, 0), 'rp/radius-not-bin-centres',
            f'RadialProfile.radius {pr} != bin centres ({tag})')
        with np.errstate(all='ignore'):
            e_area = np.diff(dar)
            e_prof = np.diff(dfl) / e_area
            e_err = np.sqrt(np.diff(dfe ** 2)) / e_area
        # relative tolerance on the *differences*: absolute error of each sum is ~1e-16*scale
        chk(_close(pa, e_area, rtol, 1e-10), 'rp/area-vs-direct-aperture',
            f'RadialProfile.area {pa} != diff(area_overlap) {e_area} ({tag})')
        with np.errstate(all='ignore'):
            atol_p = atol / np.where(np.abs(e_area) > 0, np.abs(e_area), 1.0)
        okp = pp.shape == e_prof.shape and bool(np.all(
            (np.abs(pp - e_prof) <= rtol * np.abs(e_prof) + atol_p) | (np.isnan(pp) & np.isnan(e_prof))
            | (pp == e_prof)))
        chk(okp, 'rp/profile-vs-direct-aperture',
            f'RadialProfile.profile {pp} != diff(sums)/diff(areas) {e_prof} ({tag})')
        if err is not None:
            oke = pe.shape == e_err.shape and bool(np.all(
                (np.abs(pe - e_err) <= 1e-7 * np.abs(e_err) + np.sqrt(atol_p) * 1e-3)
                | (np.isnan(pe) & np.isnan(e_err)) | (pe == e_err)))
            chk(oke, 'rp/error-vs-direct-aperture',
                f'RadialProfile.profile_error {pe} != sqrt(diff(err^2))/diff(area) {e_err} ({tag})')
        else:
            chk(pe.shape == (0,), 'rp/error-without-error-map',
                f'RadialProfile.profile_error has shape {pe.shape} without error map ({tag})')
        oo = ok_or[:-1] & ok_or[1:]
        if np.any(oo):
            ctx.case(('rp-loop', tag), nontrivial=nontriv, contract='rp.profile==pixel-loop')
            with np.errstate(all='ignore'):
                l_area = np.diff(oar)
                l_prof = np.diff(ofl) / l_area
                l_err = np.sqrt(np.diff(ofe ** 2)) / l_area
            chk(_close(pa[oo], l_area[oo], rtol, 1e-10), f'rp/area-vs-pixel-loop/{method}',
                f'RadialProfile.area {pa[oo]} != pixel-loop annulus areas {l_area[oo]} ({tag})')
            good = oo & (np.abs(l_area) > 1e-6)
            okl = bool(np.all(np.abs(pp[good] - l_prof[good]) <= rtol * np.abs(l_prof[good]) + atol_p[good]))
            chk(okl, f'rp/profile-vs-pixel-loop/{method}',
                f'RadialProfile.profile {pp[good]} != pixel-loop annulus means {l_prof[good]} ({tag})')
            # bins without any (sub)pixel: 0/0 -> NaN expected by the formula
            empty = oo & (l_area == 0)
            chk(bool(np.all(np.isnan(pp[empty]))), 'rp/empty-bin-not-nan',
                f'RadialProfile.profile finite {pp[empty]} in bins of zero area ({tag})')
            if err is not None:
                okl = bool(np.all(np.abs(pe[good] - l_err[good])
                                  <= 1e-7 * np.abs(l_err[good]) + np.sqrt(atol_p[good]) * 1e-3))
                chk(okl, f'rp/error-vs-pixel-loop/{method}',
                    f'RadialProfile.profile_error {pe[good]} != quadrature errors {l_err[good]} ({tag})')
    # the caller's mask is not modified (C10 F5 restored contract, observable here for free)
    if mask is not None:
        chk(bool(np.array_equal(mask, mask_in)), 'input-mask-modified', f'profile classes wrote the caller mask ({tag})')
    return fails


def part_photometry(ctx):
    thorough = ctx.thorough
    scenes = ['noise+gauss', 'ramp'] + (['signed'] if thorough else [])
    variants = ['plain', 'mask', 'err', 'mask+err+nan', 'tiny+err']
    for sname in scenes:
        base = _scene(sname, ctx.rng)
        cents = _centres(base.shape, thorough)
        rsets = _radii_sets(thorough)
        if not thorough:
            # quick: thin the product deterministically but keep every lattice value
            pass
        for vi, vname in enumerate(variants):
            rloc = np.random.default_rng(1000 + vi)
            data, err, mask = _variant(vname, base, rloc)
            for ci, xy in enumerate(cents):
                for ri, (rname, radii) in enumerate(rsets):
                    for mi, (method, s) in enumerate(_methods(thorough)):
                        if not thorough and (ci + ri + mi + vi) % 3 != 0 and sname != 'noise+gauss':
                            continue
                        if not thorough and sname == 'noise+gauss' and (ci + 2 * ri + mi + vi) % 2 != 0:
                            continue
                        tag = (sname, vname, xy, rname, method, s)
                        check_photometry(ctx, data, err, mask, xy, radii, method, s, tag)


# --------------------------------------------------------------------------------------------------
# part 2: constant image / non-negative data
# --------------------------------------------------------------------------------------------------
def check_constant(ctx, shape, c, xy, radii, method, s, maskfrac, seed, record=True):
    from photutils.profiles import RadialProfile
    data = np.full(shape, float(c))
    mask = None
    if maskfrac > 0:
        mask = np.random.default_rng(seed).random(shape) < maskfrac
    fails = []
    try:
        rp = RadialProfile(data, xy, radii, mask=mask, method=method, subpixels=s)
        prof = np.array(rp.profile, float)
        area = np.array(rp.area, float)
    except Exception as exc:  # noqa: BLE001
        fails.append(('constant/raises', f'RadialProfile raised {type(exc).__name__}: {exc}'))
        prof = area = None
    if prof is not None:
        good = np.isfinite(area) & (area > 1e-3)
        ctx.case(('const', shape, c, xy, tuple(radii), method, s, maskfrac), nontrivial=bool(np.any(good)),
                 contract='constant-image->constant-profile')
        if not np.all(np.abs(prof[good] - c) <= 1e-9 * abs(c)):
            fails.append(('constant-image/profile-not-constant',
                          f'constant image {c}: profile {prof} (area {area}) xy={xy} radii={radii} {method}/{s}'))
        bad = np.isfinite(area) & (area < -1e-12)
        if np.any(bad):
            fails.append(('constant-image/negative-annulus-area', f'annulus areas {area} xy={xy} radii={radii} {method}'))
    if record:
        for k, w in fails:
            ctx.check(False, k, w, {'kind': 'const', 'shape': list(shape), 'c': c, 'xycen': list(xy),
                                    'radii': list(radii), 'method': method, 'subpixels': s,
                                    'maskfrac': maskfrac, 'seed': seed})
    return fails


def check_monotone(ctx, data, mask, xy, radii, method, s, tag, record=True):
    from photutils.profiles import CurveOfGrowth
    fails = []
    try:
        cog = CurveOfGrowth(data, xy, radii, mask=mask, method=method, subpixels=s)
        prof = np.array(cog.profile, float)
        area = np.array(cog.area, float)
    except Exception as exc:  # noqa: BLE001
        fails.append(('monotone/raises', f'CurveOfGrowth raised {type(exc).__name__}: {exc}'))
        prof = None
    if prof is not None:
        fin = np.isfinite(prof)
        ctx.case(('mono', tag), nontrivial=bool(fin.sum() >= 2), contract='nonneg-data->nondecreasing-cog')
        p = prof[fin]
        slack = 1e-10 * (abs(p[-1]) + 1.0) if p.size else 0.0
        if p.size >= 2 and not np.all(np.diff(p) >= -slack):
            fails.append(('nonnegative-data/curve-decreases', f'curve of growth {prof} decreases ({tag})'))
        a = area[np.isfinite(area)]
        if a.size >= 2 and not np.all(np.diff(a) >= -1e-10):
            fails.append(('nonnegative-data/area-decreases', f'aperture areas {area} decrease ({tag})'))
        # NaN only for the no-overlap prefix: once an aperture overlaps, all larger ones do
        if fin.any() and not np.all(fin[np.argmax(fin):]):
            fails.append(('cog/nan-after-finite', f'curve of growth {prof} has NaN after a finite value ({tag})'))
    if record:
        for k, w in fails:
            ctx.check(False, k, w, _mkcase('mono', data, None, mask, xy, radii, method, s))
    return fails


def part_constant_monotone(ctx):
    thorough = ctx.thorough
    shape = (11, 13)
    cents = _centres(shape, thorough)
    rsets = [[0.0, 0.7, 1.3, 2.9, 3.1, 5.2], [0.5, 1.0, 1.5, 4.0], [0.0, 0.2, 0.45, 0.9, 2.2, 6.4]]
    for c in ([3.25, -7.0] if not thorough else [3.25, -7.0, 1e-3, 12345.678]):
        for ci, xy in enumerate(cents):
            for ri, radii in enumerate(rsets):
                for mi, (method, s) in enumerate(_methods(thorough)):
                    for fi, frac in enumerate([0.0, 0.25]):
                        if not thorough and (ci + ri + mi + fi) % 2:
                            continue
                        check_constant(ctx, shape, c, xy, radii, method, s, frac, 7 + ci)
    # non-negative data -> non-decreasing curve of growth
    rng = ctx.rng
    nn = [('uniform', rng.uniform(0.0, 3.0, shape)),
          ('sparse', np.where(rng.random(shape) < 0.3, rng.uniform(0, 10, shape), 0.0)),
          ('gauss', _gauss(shape, 6.2, 5.1, 1.5, 30.0))]
    cr = [[0.3, 0.7, 1.3, 2.9, 3.1, 5.2, 9.0], [0.5, 1.0, 1.5, 2.0, 2.5, 3.0], [0.05, 0.1, 0.4, 6.0, 6.01]]
    for dname, d in nn:
        for ci, xy in enumerate(cents):
            for ri, radii in enumerate(cr):
                for mi, (method, s) in enumerate(_methods(thorough)):
                    for fi in (0, 1):
                        if not thorough and (ci + ri + mi + fi) % 2:
                            continue
                        mask = None if fi == 0 else (np.random.default_rng(50 + ci).random(shape) < 0.25)
                        check_monotone(ctx, d, mask, xy, radii, method, s, (dname, xy, ri, method, s, fi))


# --------------------------------------------------------------------------------------------------
# part 3: normalisation histories
# --------------------------------------------------------------------------------------------------
def all_sequences(maxlen, reads):
    alpha = ['Nmax', 'Nsum', 'U'] + ['R:' + r for r in reads]
    out = []
    for n in range(1, maxlen + 1):
        for seq in itertools.product(alpha, repeat=n):
            rd = [e for e in seq if e.startswith('R:')]
            if len(rd) != len(set(rd)):
                continue
            if not any(e in ('Nmax', 'Nsum') for e in seq):
                continue                      # without a normalize nothing is exercised
            out.append(seq)
    return out


def _history_scene(name):
    rng = np.random.default_rng(4242)
    if name == 'A':
        shape = (9, 9)
        d = rng.uniform(0.5, 2.0, shape) + _gauss(shape, 4.2, 3.9, 1.4, 15.0)
        e = 0.2 + rng.random(shape)
        return dict(data=d, error=e, mask=None, xycen=(4.2, 3.9), radii=[0.0, 1.1, 2.3, 3.9], method='exact')
    if name == 'B':                           # mask + centre near the edge + empty bin -> NaN in profile
        shape = (8, 10)
        d = rng.uniform(1.0, 3.0, shape)
        m = np.zeros(shape, bool)
        m[2:5, 0:3] = True                    # first bins completely masked -> area 0 -> NaN
        m[6, 6] = True
        return dict(data=d, error=None, mask=m, xycen=(1.0, 3.0), radii=[0.0, 0.9, 2.5, 4.5], method='center')
    if name == 'C':
        shape = (9, 11)
        d = rng.normal(0.0, 1.0, shape) + _gauss(shape, 5.0, 4.0, 1.2, 25.0)
        e = np.full(shape, 0.7)
        return dict(data=d, error=e, mask=None, xycen=(5.0, 4.0), radii=[0.5, 1.5, 2.0, 4.0], method='subpixel')
    if name == 'D':
        shape = (7, 7)
        d = rng.uniform(0.1, 1.0, shape)
        return dict(data=d, error=0.1 + rng.random(shape), mask=rng.random(shape) < 0.15, xycen=(-0.5, 3.0),
                    radii=[1.0, 2.0, 3.5], method='exact')
    raise ValueError(name)


def _make_profile(cls, sc):
    from photutils.profiles import CurveOfGrowth, RadialProfile
    k = RadialProfile if cls == 'RadialProfile' else CurveOfGrowth
    radii = sc['radii'] if cls == 'RadialProfile' else [r for r in sc['radii'] if r > 0]
    return k(sc['data'], sc['xycen'], radii, error=sc['error'], mask=sc['mask'], method=sc['method'],
             subpixels=3)


def run_history(cls, scene_name, seq):
    """Run one event sequence on a fresh object against the reference model.

    Reference model (from the statement): every array read at any time equals raw/nv, where raw is the
    array of a never-normalised object and nv is the product of the normalisation constants applied
    since the last unnormalize; after a final unnormalize every array equals raw.
    Returns list of (key, what).
    """
    sc = _history_scene(scene_name)
    reads = ARR if cls == 'RadialProfile' else ARR[:2]
    ref = _make_profile(cls, sc)
    raw = {a: np.array(getattr(ref, a), float) for a in reads}
    obj = _make_profile(cls, sc)
    nv = 1.0
    nresc = 0
    fails = []

    def cmp(name, stage):
        try:
            val = np.array(getattr(obj, name), float)
        except Exception as exc:  # noqa: BLE001
            fails.append((f'normalize-history/{cls}.{name}/raises', f'{type(exc).__name__}: {exc} at {stage} seq={seq}'))
            return
        exp = raw[name] / nv
        tol = 1e-12 * (nresc + 2)
        if not _close(val, exp, tol, 0.0):
            fails.append((f'normalize-history/{cls}.{name}/{stage}',
                          f'{cls}.{name} after {seq} ({stage}): got {val[:4]}.. expected raw/nv {exp[:4]}.. (nv={nv})'))

    for ev in seq:
        if ev in ('Nmax', 'Nsum'):
            cur = raw['profile'] / nv
            norm = np.nanmax(cur) if ev == 'Nmax' else np.nansum(cur)
            try:
                obj.normalize('max' if ev == 'Nmax' else 'sum')
            except Exception as exc:  # noqa: BLE001
                fails.append((f'normalize-history/{cls}/normalize-raises', f'{type(exc).__name__}: {exc} seq={seq}'))
                return fails
            if norm != 0:
                nv *= norm
                nresc += 1
        elif ev == 'U':
            try:
                obj.unnormalize()
            except Exception as exc:  # noqa: BLE001
                fails.append((f'normalize-history/{cls}/unnormalize-raises', f'{type(exc).__name__}: {exc} seq={seq}'))
                return fails
            nv = 1.0
            nresc += 1
        else:
            cmp(ev[2:], 'first-read')
    for a in reads:
        cmp(a, 'state-after-sequence')
    got_nv = float(obj.normalization_value)
    if not abs(got_nv - nv) <= 1e-11 * abs(nv):
        fails.append((f'normalize-history/{cls}/normalization_value', f'normalization_value {got_nv} != {nv} seq={seq}'))
    try:
        obj.unnormalize()
    except Exception as exc:  # noqa: BLE001
        fails.append((f'normalize-history/{cls}/unnormalize-raises', f'{type(exc).__name__}: {exc} seq={seq}'))
        return fails
    nv = 1.0
    nresc += 1
    for a in reads:
        cmp(a, 'after-unnormalize')
    if float(obj.normalization_value) != 1.0:
        fails.append((f'normalize-history/{cls}/normalization_value-not-reset',
                      f'normalization_value {obj.normalization_value} after unnormalize seq={seq}'))
    return fails


def part_histories(ctx):
    plan = [('RadialProfile', 'A', 5), ('RadialProfile', 'B', 5),
            ('CurveOfGrowth', 'A', 5), ('CurveOfGrowth', 'D', 5 if ctx.thorough else 4)]
    if ctx.thorough:
        plan += [('RadialProfile', 'C', 5), ('RadialProfile', 'D', 5), ('CurveOfGrowth', 'C', 5)]
    for cls, scn, maxlen in plan:
        reads = ARR if cls == 'RadialProfile' else ARR[:2]
        for seq in all_sequences(maxlen, reads):
            fails = run_history(cls, scn, seq)
            ctx.case(('hist', cls, scn, seq), nontrivial=True, contract='normalize/unnormalize-history')
            for k, w in fails:
                ctx.check(False, k, w, {'kind': 'hist', 'cls': cls, 'scene': scn, 'seq': list(seq)})


# --------------------------------------------------------------------------------------------------
# part 4: encircled-energy interpolators
# --------------------------------------------------------------------------------------------------
def _ee_scene(name, rng):
    shape = (15, 15)
    if name == 'gauss':
        return _gauss(shape, 7.2, 6.8, 2.0, 10.0)
    if name == 'gauss-ring':               # becomes negative outside r ~ 3: curve turns over
        yy, xx = np.mgrid[0:15, 0:15]
        rr = np.hypot(xx - 7.0, yy - 7.0)
        return _gauss(shape, 7.0, 7.0, 1.5, 10.0) - 0.8 * ((rr > 3.2) & (rr < 5.5))
    if name == 'noise':
        return _gauss(shape, 7.0, 7.0, 1.8, 10.0) + rng.normal(0, 0.6, shape)
    if name == 'compact':                  # all flux in 3x3: plateau (exactly equal sums) afterwards
        d = np.zeros(shape)
        d[6:9, 6:9] = [[1, 2, 1], [2, 5, 2], [1, 2, 1]]
        return d
    if name == 'negative-core':            # decreasing from the first step
        return -_gauss(shape, 7.0, 7.0, 2.0, 5.0)
    raise ValueError(name)


def check_ee(ctx, data, mask, xy, radii, method, normalize, tag, record=True):
    from photutils.profiles import CurveOfGrowth
    fails = []
    case = _mkcase('ee', data, None, mask, xy, radii, method, 5, normalize=normalize)

    def bad(key, what):
        fails.append((key, what))
        if record:
            ctx.check(False, key, what, case)

    try:
        cog = CurveOfGrowth(data, xy, radii, mask=mask, method=method)
        if normalize:
            cog.normalize(normalize)
        prof = np.array(cog.profile, float)
        rad = np.array(cog.radius, float)
    except Exception as exc:  # noqa: BLE001
        bad('ee/construct-raises', f'{type(exc).__name__}: {exc} ({tag})')
        return fails
    if not np.all(np.isfinite(prof)):
        ctx.case(('ee', tag), nontrivial=False, contract='ee-inverse')
        return fails
    # maximal strictly increasing prefix, by definition
    k = 1
    while k < len(prof) and prof[k] > prof[k - 1]:
        k += 1
    ctx.case(('ee', tag, k), nontrivial=k >= 2, contract='ee-inverse',
             sample={'radii': list(radii), 'prefix': k, 'n': len(prof)} if k < len(prof) else None)
    # calc_ee_at_radius interpolates its knots at every sampled radius
    try:
        ee = np.array(cog.calc_ee_at_radius(rad), float)
        if not _close(ee, prof, 1e-12, 1e-12 * np.max(np.abs(prof))):
            bad('ee/ee_at_radius-misses-samples', f'calc_ee_at_radius(radius) {ee} != profile {prof} ({tag})')
    except Exception as exc:  # noqa: BLE001
        bad('ee/ee_at_radius-raises', f'{type(exc).__name__}: {exc} ({tag})')
        return fails
    if k < 2:
        try:
            cog.calc_radius_at_ee(prof[0])
            bad('ee/no-error-for-nonmonotone-start', f'calc_radius_at_ee did not raise for profile {prof} ({tag})')
        except ValueError:
            pass
        except Exception as exc:  # noqa: BLE001
            bad('ee/radius_at_ee-raises', f'{type(exc).__name__}: {exc} ({tag})')
        return fails
    try:
        rr = np.array(cog.calc_radius_at_ee(prof[:k]), float)
        r_last = float(cog.calc_radius_at_ee(float(prof[k - 1])))
    except Exception as exc:  # noqa: BLE001
        bad('ee/radius_at_ee-raises', f'{type(exc).__name__}: {exc} ({tag})')
        return fails
    tol = 1e-9 * rad[k - 1]
    if not (np.all(np.isfinite(rr[:k - 1])) and np.all(np.abs(rr[:k - 1] - rad[:k - 1]) <= tol)):
        bad('ee/radius_at_ee-not-inverse-at-samples',
            f'calc_radius_at_ee(profile[:k-1]) {rr[:k - 1]} != radii {rad[:k - 1]} ({tag})')
    if not (np.isfinite(rr[k - 1]) and abs(rr[k - 1] - rad[k - 1]) <= tol
            and np.isfinite(r_last) and abs(r_last - rad[k - 1]) <= tol):
        bad('ee/radius_at_ee-last-monotone-sample',
            f'calc_radius_at_ee(profile[{k - 1}]={prof[k - 1]}) = {rr[k - 1]}/{r_last}, expected {rad[k - 1]}; '
            f'profile {prof} ({tag})')
    # round trips at the samples of the monotone part
    # (a result within rounding of the first/last sampled radius is clipped into the sampled range, outside
    # of which the interpolator documents NaN; the deviation itself was bounded by `tol` just above)
    rt = np.array(cog.calc_ee_at_radius(np.clip(rr, rad[0], rad[-1])), float)
    okrt = np.isfinite(rr) & np.isfinite(rt)
    if not (np.all(okrt) and np.all(np.abs(rt - prof[:k]) <= 1e-9 * np.max(np.abs(prof)))):
        bad('ee/roundtrip-ee', f'ee_at_radius(radius_at_ee(ee_i)) {rt} != ee_i {prof[:k]} ({tag})')
    # between two monotone samples the interpolators are mutually inverse too (PCHIP monotone): mid-points
    mid_r = (rad[:k - 1] + rad[1:k]) / 2.0
    ee_m = np.array(cog.calc_ee_at_radius(mid_r), float)
    back = np.array(cog.calc_radius_at_ee(ee_m), float)
    if not (np.all(np.isfinite(ee_m)) and np.all(np.isfinite(back))
            and np.all((back >= rad[:k - 1] - tol) & (back <= rad[1:k] + tol))):
        bad('ee/midpoint-leaves-bin', f'radius_at_ee(ee_at_radius(mid)) {back} leaves bins of {rad[:k]} ({tag})')
    # outside the sampled range: NaN (documented), never an exception
    out = np.array(cog.calc_ee_at_radius([rad[0] * 0.5, rad[-1] * 1.5]), float)
    if not np.all(np.isnan(out)):
        bad('ee/extrapolates', f'calc_ee_at_radius outside the radii returned {out} ({tag})')
    return fails


def part_ee(ctx):
    names = ['gauss', 'gauss-ring', 'noise', 'compact', 'negative-core']
    rsets = [[0.5, 1.0, 1.7, 2.4, 3.0, 4.1, 5.0, 6.3], [1.0, 2.0, 3.0, 4.0, 5.0, 6.0, 7.0],
             [0.3, 0.6, 3.5, 3.9, 6.8], [0.8, 3.1]]
    if ctx.thorough:
        rsets += [[0.2, 0.4, 0.9, 1.6, 2.2, 2.9, 3.3, 3.8, 4.6, 5.9, 7.4], [2.0, 2.5, 6.5]]
    cents = [(7.0, 7.0), (7.2, 6.8), (6.5, 7.5), (2.1, 1.7)] + ([(0.0, 7.0), (13.6, 13.9)] if ctx.thorough else [])
    for nm in names:
        d = _ee_scene(nm, ctx.rng)
        for xy in cents:
            for ri, radii in enumerate(rsets):
                for method in ('exact', 'center', 'subpixel'):
                    for mk in (0, 1):
                        mask = None
                        if mk:
                            mask = np.zeros(d.shape, bool)
                            mask[5:7, 9] = True
                            mask[10, 3:6] = True
                        for normalize in (None, 'max') + (('sum',) if ctx.thorough else ()):
                            check_ee(ctx, d, mask, xy, radii, method, normalize,
                                     (nm, xy, ri, method, mk, normalize))



# --------------------------------------------------------------------------------------------------
# part 5: wide / tall non-square images, apertures running off each edge separately
# --------------------------------------------------------------------------------------------------
def _seg(t, r):
    """Antiderivative of sqrt(r^2 - t^2)."""
    t = max(-r, min(r, t))
    return 0.5 * (t * math.sqrt(max(r * r - t * t, 0.0)) + r * r * math.asin(t / r))


def circle_rect_area(x0, x1, y0, y1, r):
    """Exact area of {x^2+y^2 <= r^2} within [x0,x1]x[y0,y1] (circle centred on the origin).

    area = int_{x0}^{x1} [min(y1, s(t)) - max(y0, -s(t))]^+ dt, s(t) = sqrt(r^2 - t^2); the integrand is piecewise
    one of {0, y1-y0, y1+s, s-y0, 2s}; the pieces are integrated in closed form.
    """
    a, b = max(x0, -r), min(x1, r)
    if a >= b:
        return 0.0
    cuts = {a, b}
    for yy in (y0, y1):
        if abs(yy) <= r:                        # tangency (|yy| == r) cuts at t = 0
            c = math.sqrt(r * r - yy * yy)
            for t in (-c, c):
                if a < t < b:
                    cuts.add(t)
    cuts = sorted(cuts)
    tot = 0.0
    for u, v in zip(cuts[:-1], cuts[1:]):
        m = 0.5 * (u + v)
        sm = math.sqrt(max(r * r - m * m, 0.0))
        top_is_arc = sm < y1
        bot_is_arc = -sm > y0
        hi = sm if top_is_arc else y1
        lo = -sm if bot_is_arc else y0
        if hi <= lo:
            continue
        seg = _seg(v, r) - _seg(u, r)
        tot += ((seg if top_is_arc else y1 * (v - u)) - (-seg if bot_is_arc else y0 * (v - u)))
    return tot


def exact_photometry(data, tmask, xc, yc, r):
    """Sum / area with exact circle-pixel overlap weights, pixel by pixel (closed-form overlap)."""
    ny, nx = data.shape
    tot = area = 0.0
    for i in range(max(int(math.floor(yc - r - 1)), 0), min(int(math.ceil(yc + r + 2)), ny)):
        for j in range(max(int(math.floor(xc - r - 1)), 0), min(int(math.ceil(xc + r + 2)), nx)):
            if tmask[i, j]:
                continue
            fx = max(abs(j - 0.5 - xc), abs(j + 0.5 - xc))
            fy = max(abs(i - 0.5 - yc), abs(i + 0.5 - yc))
            if fx * fx + fy * fy <= r * r:
                w = 1.0
            else:
                nxp = max(j - 0.5 - xc, 0.0, xc - (j + 0.5))
                nyp = max(i - 0.5 - yc, 0.0, yc - (i + 0.5))
                if nxp * nxp + nyp * nyp >= r * r:
                    continue
                w = circle_rect_area(j - 0.5 - xc, j + 0.5 - xc, i - 0.5 - yc, i + 0.5 - yc, r)
            tot += w * data[i, j]
            area += w
    return tot, area


def grid_photometry(data, tmask, xc, yc, r, s):
    """(Sub)pixel-centre counting by definition on the whole image (numpy form of loop_photometry)."""
    ny, nx = data.shape
    off = (np.arange(s) + 0.5) / s - 0.5
    ys = (np.arange(ny)[:, None] + off[None, :]).ravel() - yc
    xs = (np.arange(nx)[:, None] + off[None, :]).ravel() - xc
    q = ys[:, None] ** 2 + xs[None, :] ** 2
    tie = bool(np.any(np.abs(q - r * r) < 1e-9))
    frac = (q < r * r).reshape(ny, s, nx, s).sum(axis=(1, 3)) / float(s * s)
    frac = np.where(tmask, 0.0, frac)
    return float(np.sum(frac * np.where(tmask, 0.0, data))), float(np.sum(frac)), tie


def _nonsq_data(shape, const, seed):
    if const is not None:
        return np.full(shape, float(const))
    yy, xx = np.mgrid[0:shape[0], 0:shape[1]].astype(float)
    return 2.0 + 0.031 * xx + 0.047 * yy + np.random.default_rng(seed).uniform(0, 1.0, shape)


def check_nonsquare(ctx, shape, const, xy, radii, method, s, maskfrac, seed, tag, record=True):
    from photutils.profiles import CurveOfGrowth, RadialProfile
    shape = tuple(shape)
    case = {'kind': 'nonsq', 'shape': list(shape), 'const': const, 'xycen': list(xy), 'radii': list(radii),
            'method': method, 'subpixels': s, 'maskfrac': maskfrac, 'seed': seed}
    fails = []

    def chk(ok, key, what):
        if not ok:
            fails.append((key, what))
            if record:
                ctx.check(False, key, what, case)
        return ok

    data = _nonsq_data(shape, const, seed)
    mask = None
    if maskfrac > 0:
        mask = np.random.default_rng(seed + 17).random(shape) < maskfrac
        data = data.copy()
        data[mask] = 1e7                         # junk under the mask
    tm = mask if mask is not None else np.zeros(shape, bool)
    dclean = np.where(tm, 0.0, data)
    desc = f'shape={shape} xycen={xy} radii={radii} {method}/{s} maskfrac={maskfrac} const={const} ({tag})'
    osum, oarea, usable = [], [], []
    for r in radii:
        if r <= 0:
            osum.append(0.0), oarea.append(0.0), usable.append(True)
        elif method == 'exact':
            t, a = exact_photometry(dclean, tm, xy[0], xy[1], r)
            osum.append(t), oarea.append(a), usable.append(True)
        else:
            t, a, tie = grid_photometry(dclean, tm, xy[0], xy[1], r, 1 if method == 'center' else s)
            osum.append(t), oarea.append(a), usable.append(not tie)
    osum, oarea, usable = np.array(osum), np.array(oarea), np.array(usable)
    scale = float(np.max(np.abs(dclean))) * (math.pi * max(radii) ** 2 + 1.0)
    atol_s, atol_a = 1e-9 * scale, 1e-9 * (math.pi * max(radii) ** 2 + 1.0)
    pos = np.array(radii) > 0
    try:
        cog = CurveOfGrowth(data, xy, [r for r in radii if r > 0], mask=mask, method=method, subpixels=s)
        ca, cp = np.array(cog.area, float), np.array(cog.profile, float)
        rp = RadialProfile(data, xy, radii, mask=mask, method=method, subpixels=s)
        pa, pp = np.array(rp.area, float), np.array(rp.profile, float)
    except Exception as exc:  # noqa: BLE001
        ctx.case(('nonsq', tag), nontrivial=True, contract='nonsquare-overlap')
        chk(False, 'nonsquare/raises', f'{type(exc).__name__}: {exc}; {desc}')
        return fails
    ctx.case(('nonsq', tag), nontrivial=True, contract='nonsquare-overlap')
    u = usable[pos]
    chk(bool(np.all(np.abs(ca - oarea[pos])[u] <= atol_a)), f'area-vs-overlap-oracle/CurveOfGrowth/{method}',
        f'CurveOfGrowth.area {ca} != unmasked overlap area of the circle with the image {oarea[pos]}; {desc}')
    chk(bool(np.all(np.abs(cp - osum[pos])[u] <= atol_s)), f'sum-vs-overlap-oracle/CurveOfGrowth/{method}',
        f'CurveOfGrowth.profile {cp} != overlap-weighted sums {osum[pos]}; {desc}')
    ub = usable[:-1] & usable[1:]
    e_area = np.diff(oarea)
    chk(bool(np.all(np.abs(pa - e_area)[ub] <= 2 * atol_a)), f'area-vs-overlap-oracle/RadialProfile/{method}',
        f'RadialProfile.area {pa} != annulus overlap areas {e_area}; {desc}')
    good = ub & (e_area > 1e-3)
    with np.errstate(all='ignore'):
        e_prof = np.diff(osum) / e_area
    chk(bool(np.all(np.abs(pp - e_prof)[good] <= 1e-9 * np.abs(e_prof[good]) + 2 * atol_s / e_area[good])),
        f'profile-vs-overlap-oracle/RadialProfile/{method}',
        f'RadialProfile.profile {pp} != annulus means {e_prof}; {desc}')
    if const is not None:
        g2 = np.isfinite(pa) & (pa > 1e-3) & (e_area > 1e-3)
        chk(bool(np.all(np.abs(pp[g2] - const) <= 1e-9 * abs(const))), 'constant-image/profile-not-constant',
            f'constant image {const}: RadialProfile.profile {pp} (area {pa}, true annulus areas {e_area}); {desc}')
    return fails


def part_nonsquare(ctx):
    shapes = [(40, 100), (100, 40), (23, 61)] + ([(61, 23), (30, 31)] if ctx.thorough else [])
    radii = [0.0, 2.5, 6.0, 10.5, 14.2]
    n = 0
    for shape in shapes:
        ny, nx = shape
        mx, my = nx / 2.0 + 0.3, ny / 2.0 - 0.2
        short = min(ny, nx)
        cents = [('interior', (mx, my)) if short > 30 else ('interior', (mx, my)),
                 ('left', (3.3, my)), ('right', (nx - 4.2, my)), ('bottom', (mx, 2.6)), ('top', (mx, ny - 3.4)),
                 # off the high edge of the SHORT axis while the index still fits within the LONG-axis length
                 ('short-high', (20.0, ny - 10.0) if ny < nx else (nx - 10.0, 20.0)),
                 ('short-high-int', (float(short // 2), float(ny - 6)) if ny < nx else (float(nx - 6), float(short // 2))),
                 ('long-high', (nx - 6.5, min(my, 12.0)) if ny < nx else (min(mx, 12.0), ny - 6.5)),
                 ('corner-hh', (nx - 2.5, ny - 3.0)), ('corner-ll', (1.5, 2.0))]
        for cname, xy in cents:
            for method, sp in (('exact', 5), ('center', 5), ('subpixel', 3)):
                for maskfrac in (0.0, 0.1):
                    for const in (3.25, None):
                        n += 1
                        if not ctx.thorough and method != 'exact' and (n % 2):
                            continue
                        check_nonsquare(ctx, shape, const, xy, radii, method, sp, maskfrac, 100 + n,
                                        (shape, cname, method, maskfrac, const))

# --------------------------------------------------------------------------------------------------
def run(ctx):
    part_histories(ctx)
    part_ee(ctx)
    part_constant_monotone(ctx)
    part_photometry(ctx)
    part_nonsquare(ctx)
    ctx.note('CurveOfGrowth requires radii > 0, so radii arrays starting at 0 are exercised on RadialProfile; '
             'apertures without any overlap with the image give NaN (aperture semantics, C02) and are counted trivial.')


def replay(case):
    class _C:
        thorough = False

        def case(self, *a, **k):
            pass

        def check(self, *a, **k):
            return False
    c = _C()
    kind = case.get('kind')
    try:
        if kind == 'hist':
            fails = run_history(case['cls'], case['scene'], tuple(case['seq']))
        elif kind == 'nonsq':
            fails = check_nonsquare(c, case['shape'], case['const'], tuple(case['xycen']), case['radii'],
                                    case['method'], case['subpixels'], case['maskfrac'], case['seed'], 'replay',
                                    record=False)
        elif kind == 'const':
            fails = check_constant(c, tuple(case['shape']), case['c'], tuple(case['xycen']), case['radii'],
                                   case['method'], case['subpixels'], case['maskfrac'], case['seed'], record=False)
        else:
            data = _unL(case['data'])
            err = _unL(case['error'])
            mask = _unL(case['mask'], bool)
            xy = tuple(case['xycen'])
            if kind == 'phot':
                fails = check_photometry(c, data, err, mask, xy, case['radii'], case['method'],
                                         case['subpixels'], 'replay', record=False)
            elif kind == 'mono':
                fails = check_monotone(c, data, mask, xy, case['radii'], case['method'], case['subpixels'],
                                       'replay', record=False)
            elif kind == 'ee':
                fails = check_ee(c, data, mask, xy, case['radii'], case['method'], case.get('normalize'),
                                 'replay', record=False)
            else:
                return 'error', f'unknown case kind {kind}', None
    except Exception as exc:  # noqa: BLE001
        return 'error', f'{type(exc).__name__}: {exc}', None
    if fails:
        return 'confirmed', fails[0][1][:400], [k for k, _ in fails]
    return 'spurious', 'all contracts hold on replay', None
