"""C06 - deblending only refines segments and is independent of worker scheduling (bounded rtc driver).

Real code: photutils.segmentation.deblend_sources (serial branch, real spawn pools, and the pool branch driven by
an in-process executor whose futures are handed back by a patched `as_completed` in every / many orders).
Oracle: set logic on the input and output label arrays (explicit per-label pixel sets), written from the
property statement; bit-identity by array_equal on the raw arrays and exact equality of the label maps.
"""
import concurrent.futures
import itertools
import time
import warnings

import numpy as np

BOUNDS = (
    "Seeded scenes (ctx.rng): 56x56 .. 84x84 images with 2-7 circular Gaussians (amplitude 20-100, 2*sigma^2 in "
    "{8,10,14}) arranged in 1-3 blends of 1-3 sources 5.5-9 px apart (scheduling scenes: 84x112 with 4-7 segments, "
    "<= 10 sources), Gaussian noise sigma in {0,0.3}, optionally "
    "shifted by -5 (non-positive minima -> mode fallback); detected with threshold 2 (or -3), npixels 5, connectivity "
    "4 or 8; input labels as detected, with a gap (start at 3), or non-monotone (first label moved past the "
    "maximum).  deblend_sources parameters: labels in {None, each single label (<=3), scalar, a pair, all}, npixels "
    "in {3,5,12}, nlevels in {1,8,32}, contrast in {0,0.001,0.05,0.3,1}, mode in {exponential,linear,sinh}, relabel in "
    "{True,False}, connectivity = the detection connectivity.  quick: 10 scenes x (12 fixed + 100 sampled parameter "
    "sets); thorough: 40 scenes x (12 fixed + 400 sampled).  Scheduling: nproc=2 real spawn pool vs nproc=1 (2 quick / 6 "
    "thorough scenes), real pool with as_completed reversed (1 / 3), and the pool branch run on an in-process executor "
    "(8 quick / 30 thorough scenes x 2 parameter sets) with as_completed yielding the futures in ALL permutations when "
    "<= 4 tasks (<= 5 thorough), else 30 (120 thorough) seeded permutations plus the reversed order, alternately with "
    "eagerly and lazily (in yield order) executed tasks.  All comparisons "
    "are exact (integer arrays, label lists)."
)
RULE = (
    "Scenes and sampled parameter sets come from ctx.rng; the fixed parameter sets and the permutation enumerations "
    "are seed-independent.  One case = one deblend_sources call (or one schedule) checked against all clauses; "
    "distinct = distinct (scene, input-label variant, parameters, schedule); non-trivial = at least one parent was "
    "actually split (or, for schedules, at least two tasks were submitted)."
)

_CAP = {}
_REAL = []


def _real():
    if not _REAL:
        import photutils.segmentation.deblend as D
        from photutils.segmentation import SegmentationImage, deblend_sources, detect_sources
        _REAL.extend([SegmentationImage, detect_sources, deblend_sources, D])
    return _REAL


# ----------------------------------------------------------------------------- scenes

def random_scene(rng, many=False):
    """many=False: 1-3 blends, 2-7 sources.  many=True (scheduling scenes): 4-7 segments, up to 10 sources."""
    if many:
        rows, cols = 3, 4
    else:
        rows, cols = int(rng.integers(2, 4)), int(rng.integers(2, 4))
    cell = 28
    h, w = rows * cell, cols * cell
    ngroups = int(rng.integers(4, 8)) if many else int(rng.integers(1, min(3, rows * cols) + 1))
    maxsrc = 10 if many else 7
    cells = rng.choice(rows * cols, size=ngroups, replace=False)
    sources = []
    total = 0
    for gi, c in enumerate(cells):
        cy, cx = divmod(int(c), cols)
        y0 = cy * cell + cell / 2 + float(rng.uniform(-2, 2))
        x0 = cx * cell + cell / 2 + float(rng.uniform(-2, 2))
        size = int(rng.integers(2, 4)) if gi == 0 else int(rng.integers(1, 4))
        if many:
            size = 2 if gi < 3 else 1
        size = min(size, maxsrc - total)
        if size <= 0:
            break
        amp = float(rng.uniform(50, 100))
        s2 = float(rng.choice([8.0, 10.0, 14.0]))
        sources.append([round(x0, 3), round(y0, 3), round(amp, 3), s2])
        for _ in range(size - 1):
            ang = float(rng.uniform(0, 2 * np.pi))
            d = float(rng.uniform(5.5, 9.0))
            sources.append([round(float(x0 + d * np.cos(ang)), 3), round(float(y0 + d * np.sin(ang)), 3),
                            round(amp * float(rng.uniform(0.4, 1.0)), 3), s2])
        total += size
    return {'h': h, 'w': w, 'sources': sources, 'noise': float(rng.choice([0.0, 0.3])),
            'noise_seed': int(rng.integers(1 << 30)), 'offset': float(rng.choice([0.0, 0.0, -5.0])),
            'conn': int(rng.choice([8, 8, 4])), 'labelvar': str(rng.choice(['asis', 'gap', 'moved']))}


def make_scene(spec):
    yy, xx = np.mgrid[0:spec['h'], 0:spec['w']]
    img = np.zeros(xx.shape)
    for (x0, y0, amp, s2) in spec['sources']:
        img += amp * np.exp(-((xx - x0) ** 2 + (yy - y0) ** 2) / s2)
    if spec['noise'] > 0:
        img += np.random.default_rng(spec['noise_seed']).normal(0, spec['noise'], img.shape)
    img += spec['offset']
    return img


def make_seg(img, spec):
    _, detect_sources, _, _ = _real()
    with warnings.catch_warnings():
        warnings.simplefilter('ignore')
        seg = detect_sources(img, 2.0 + spec['offset'], 5, connectivity=spec['conn'])
        if seg is None:
            return None
        if spec['labelvar'] == 'gap':
            seg.relabel_consecutive(start_label=3)
        elif spec['labelvar'] == 'moved':
            seg.reassign_label(int(seg.labels[0]), int(seg.max_label) + 4)
    return seg


# ----------------------------------------------------------------------------- oracle on (input array, output)

def label_sets(a):
    labs = sorted(set(a.ravel().tolist()) - {0})
    return labs


def check_refinement(A, out, params, viol):
    """All pixel/bookkeeping clauses. Returns number of parents that were split."""
    O = out.data
    if not (isinstance(O, np.ndarray) and O.shape == A.shape and np.issubdtype(O.dtype, np.integer)):
        viol.append(('output/array-type', f'shape {getattr(O, "shape", None)} dtype {getattr(O, "dtype", None)}'))
        return 0
    if not np.array_equal(O != 0, A != 0):
        viol.append(('refine/nonzero-set-changed', f'{int(np.count_nonzero((O != 0) != (A != 0)))} pixels changed between background and source'))
    if (O < 0).any():
        viol.append(('refine/negative-label', 'negative label in output'))
    in_labels = label_sets(A)
    requested = in_labels if params['labels'] is None else [int(v) for v in np.atleast_1d(params['labels'])]
    npix = params['npixels']
    owner = {}      # output label -> input label that contains it
    split = {}
    for p in in_labels:
        m = (A == p)
        vals, counts = np.unique(O[m], return_counts=True)
        vals = [int(v) for v in vals]
        for v in vals:
            if v in owner:
                viol.append(('refine/label-shared-by-two-parents', f'output label {v} occurs inside input labels {owner[v]} and {p}'))
            owner[v] = p
        if 0 in vals:
            continue    # already reported by the nonzero-set clause
        if len(vals) == 1:
            if not params['relabel'] and vals[0] != p:
                viol.append(('refine/untouched-label-renamed', f'input label {p} not split but renamed to {vals[0]} with relabel=False'))
        else:
            split[p] = vals
            if p not in requested:
                viol.append(('refine/unrequested-label-split', f'input label {p} not in labels={requested} but split into {vals}'))
            if int(m.sum()) < 2 * npix:
                viol.append(('refine/small-parent-split', f'input label {p} with {int(m.sum())} < 2*{npix} pixels was split'))
            small = [(v, int(c)) for v, c in zip(vals, counts) if c < npix]
            if small:
                viol.append(('refine/child-smaller-than-npixels', f'children (label, area) {small} of parent {p} below npixels={npix}'))
    out_labels = label_sets(O)
    # (for contrast=1 the statement asks for the input unchanged, which takes precedence over relabelling)
    if params['relabel'] and params['contrast'] != 1 and out_labels != list(range(1, len(out_labels) + 1)):
        viol.append(('refine/relabel-not-1..N', f'labels {out_labels}'))
    # bookkeeping
    try:
        inv = {int(k): sorted(int(v) for v in np.atleast_1d(ch)) for k, ch in out.deblended_labels_inverse_map.items()}
        fwd = {int(k): int(v) for k, v in out.deblended_labels_map.items()}
        dl = [int(v) for v in np.asarray(out.deblended_labels).tolist()]
    except Exception as e:  # noqa: BLE001
        viol.append(('map/unreadable', repr(e)))
        return len(split)
    exp_inv = {p: sorted(ch) for p, ch in split.items()}
    if inv != exp_inv:
        viol.append(('map/parent-children-vs-pixels', f'deblended_labels_inverse_map {inv} but pixels give {exp_inv}'))
    exp_fwd = {c: p for p, ch in split.items() for c in ch}
    if fwd != exp_fwd:
        viol.append(('map/child-parent-vs-pixels', f'deblended_labels_map {fwd} but pixels give {exp_fwd}'))
    if dl != sorted(exp_fwd):
        viol.append(('map/deblended_labels-vs-pixels', f'deblended_labels {dl} but pixels give {sorted(exp_fwd)}'))
    # derived attributes of the returned object vs the array it holds
    try:
        areas = [int(np.count_nonzero(O == l)) for l in out_labels]
        if [int(v) for v in out.labels] != out_labels or [int(v) for v in out.areas] != areas:
            viol.append(('output/labels-areas-vs-array', f'labels {list(out.labels)} areas {list(out.areas)} vs {out_labels} {areas}'))
        for l, slc in zip(out_labels, out.slices):
            ys, xs = np.nonzero(O == l)
            if slc != (slice(int(ys.min()), int(ys.max()) + 1), slice(int(xs.min()), int(xs.max()) + 1)):
                viol.append(('output/slices-vs-array', f'label {l}: {slc}'))
                break
    except Exception as e:  # noqa: BLE001
        viol.append(('output/attribute-exception', repr(e)))
    return len(split)


def call_deblend(img, seg, params, nproc=1):
    _, _, deblend_sources, _ = _real()
    with warnings.catch_warnings():
        warnings.simplefilter('ignore')
        return deblend_sources(img, seg, params['npixels'], labels=params['labels'], nlevels=params['nlevels'],
                               contrast=params['contrast'], mode=params['mode'], connectivity=params['connectivity'],
                               relabel=params['relabel'], nproc=nproc, progress_bar=False)


def eval_call(img, seg, params):
    """One serial call checked against every clause. Returns (viol, nsplit, out)."""
    viol = []
    A = seg.data
    A0 = A.copy()
    img0 = img.copy()
    map0 = dict(seg._deblend_label_map)
    try:
        out = call_deblend(img, seg, params)
    except Exception as e:  # noqa: BLE001
        return [('exception/deblend_sources', f'raised {e!r}')], 0, None
    if seg.data is not A or not np.array_equal(A, A0) or A.dtype != A0.dtype:
        viol.append(('input/segment-image-modified', 'segment_img.data changed by deblend_sources'))
    if not np.array_equal(img, img0):
        viol.append(('input/data-modified', 'data image changed by deblend_sources'))
    if dict(seg._deblend_label_map) != map0:
        viol.append(('input/segment-image-map-modified', 'segment_img label map changed'))
    if out is seg or (hasattr(out, 'data') and np.shares_memory(out.data, A)):
        viol.append(('output/aliases-input', 'returned object shares its array with the input'))
    nsplit = check_refinement(A0, out, params, viol)
    if params['contrast'] == 1:
        if not np.array_equal(out.data, A0) or nsplit or len(out.deblended_labels_inverse_map):
            viol.append(('contrast1/not-a-copy-of-input', 'contrast=1 changed the labels'))
    return viol, nsplit, out


# ----------------------------------------------------------------------------- scheduling

class _LazyFuture(concurrent.futures.Future):
    def __init__(self, fn, args, kwargs, eager):
        super().__init__()
        self._job = (fn, args, kwargs)
        if eager:
            self._run()

    def _run(self):
        if self._job is None:
            return
        fn, args, kwargs = self._job
        self._job = None
        self.set_running_or_notify_cancel()
        try:
            self.set_result(fn(*args, **kwargs))
        except BaseException as e:  # noqa: BLE001
            self.set_exception(e)

    def result(self, timeout=None):
        self._run()
        return super().result(timeout)


def _fake_executor(eager, log):
    class FakeExecutor:
        def __init__(self, *a, **k):
            self.futs = []

        def __enter__(self):
            return self

        def __exit__(self, *exc):
            for f in self.futs:
                f._run()
            return False

        def submit(self, fn, *args, **kwargs):
            f = _LazyFuture(fn, args, kwargs, eager)
            self.futs.append(f)
            log['submitted'] = log.get('submitted', 0) + 1
            return f
    return FakeExecutor


def _permuting_as_completed(order, log):
    def fake(fs, timeout=None):
        fs = list(fs)
        log['ntasks'] = len(fs)
        if order == 'reversed':
            idx = list(range(len(fs)))[::-1]
        elif order == 'forward':
            idx = list(range(len(fs)))
        else:
            idx = [i for i in order if i < len(fs)] + [i for i in range(len(fs)) if i not in order]
        for i in idx:
            if isinstance(fs[i], _LazyFuture):
                fs[i]._run()
            else:
                fs[i].result()      # a real pool future: wait until it is finished
        log['used'] = True
        return iter([fs[i] for i in idx])
    return fake


def run_scheduled(img, seg, params, order, executor):
    """executor in {'real','inproc-eager','inproc-lazy'}; order: 'native' | 'forward' | 'reversed' | list of ints."""
    D = _real()[3]
    log = {}
    saved = (D.as_completed, D.ProcessPoolExecutor)
    try:
        if order != 'native':
            D.as_completed = _permuting_as_completed(order, log)
        if executor != 'real':
            D.ProcessPoolExecutor = _fake_executor(executor == 'inproc-eager', log)
        out = call_deblend(img, seg, params, nproc=2)
    finally:
        D.as_completed, D.ProcessPoolExecutor = saved
    return out, log


def same_output(a, b):
    if not (a.data.dtype == b.data.dtype and a.data.shape == b.data.shape and np.array_equal(a.data, b.data)):
        return 'label arrays differ'
    ma = {int(k): [int(v) for v in ch] for k, ch in a.deblended_labels_inverse_map.items()}
    mb = {int(k): [int(v) for v in ch] for k, ch in b.deblended_labels_inverse_map.items()}
    if ma != mb or list(ma) != list(mb):
        return f'parent->children maps differ: {ma} vs {mb}'
    ia, ib = getattr(a, 'info', None), getattr(b, 'info', None)
    if (ia is None) != (ib is None):
        return 'info attribute differs'
    if ia is not None:
        wa = {k: [int(x) for x in v['input_labels']] for k, v in ia['warnings'].items()}
        wb = {k: [int(x) for x in v['input_labels']] for k, v in ib['warnings'].items()}
        if wa != wb:
            return f'warning bookkeeping differs: {wa} vs {wb}'
    return None


def eval_schedule(img, seg, params, order, executor, serial=None):
    viol = []
    A0 = seg.data.copy()
    try:
        if serial is None:
            serial = call_deblend(img, seg, params)
    except Exception as e:  # noqa: BLE001
        return [('exception/deblend_sources', f'serial call raised {e!r}')], 0
    try:
        out, log = run_scheduled(img, seg, params, order, executor)
    except Exception as e:  # noqa: BLE001
        return [(f'schedule/exception-{executor}', f'nproc=2 order={order} raised {e!r}')], 0
    if order != 'native' and not log.get('used') and params['contrast'] != 1:
        viol.append(('schedule/patch-not-reached', 'the patched as_completed was never called (driver cannot steer the order)'))
    diff = same_output(serial, out)
    if diff:
        key = 'schedule/nproc2-differs-from-serial' if order == 'native' else f'schedule/order-dependent-output-{executor}'
        viol.append((key, f'{diff} (executor={executor}, order={order})'))
    if not np.array_equal(seg.data, A0):
        viol.append(('input/segment-image-modified', f'segment_img.data changed (executor={executor})'))
    return viol, log.get('ntasks', log.get('submitted', 0))


# ----------------------------------------------------------------------------- parameter sets

def fixed_params(labels_all, conn):
    base = {'labels': None, 'npixels': 5, 'nlevels': 32, 'contrast': 0.001, 'mode': 'exponential',
            'connectivity': conn, 'relabel': True}
    out = [dict(base), dict(base, relabel=False), dict(base, contrast=1), dict(base, contrast=1.0, relabel=False),
           dict(base, contrast=0), dict(base, contrast=0, relabel=False, mode='linear', nlevels=8),
           dict(base, mode='sinh'), dict(base, mode='linear', nlevels=1), dict(base, npixels=12, relabel=False),
           dict(base, contrast=0.3), dict(base, labels=[labels_all[-1]], relabel=False),
           dict(base, labels=labels_all[0])]
    return out


def random_params(rng, labels_all, conn):
    r = rng.random()
    if r < 0.3:
        labels = None
    elif r < 0.55:
        labels = [int(rng.choice(labels_all[:3]))]
    elif r < 0.65:
        labels = int(rng.choice(labels_all))
    elif r < 0.85 and len(labels_all) >= 2:
        labels = [int(v) for v in rng.choice(labels_all, size=2, replace=False)]
    else:
        labels = list(labels_all)
    return {'labels': labels, 'npixels': int(rng.choice([3, 5, 12])), 'nlevels': int(rng.choice([1, 8, 32])),
            'contrast': float(rng.choice([0.0, 0.001, 0.05, 0.3, 1.0])),
            'mode': str(rng.choice(['exponential', 'linear', 'sinh'])), 'connectivity': conn,
            'relabel': bool(rng.integers(0, 2))}


def _report(ctx, viol, case):
    for key, what in viol:
        n = _CAP.get(key, 0)
        _CAP[key] = n + 1
        if n < 3:
            c = dict(case)
            c['key'] = key
            ctx.check(False, key, f'{what}; params={case.get("params")} scene sources={case["scene"].get("sources", case["scene"])}', c)


def _pkey(params):
    return tuple(sorted((k, repr(v)) for k, v in params.items()))


def handmade_scenes():
    """Small exact scenes with thin / diagonal structures that smooth Gaussian blends never contain:
    (name, data, label array)."""
    out = []
    # two plateaus joined by a valley, plus a 4-pixel diagonal tail hanging off the second plateau
    # through one low connector pixel; an unrelated segment
    data = np.zeros((14, 20))
    segm = np.zeros((14, 20), dtype=int)
    data[2:6, 1:11] = 1.0
    data[2:6, 1:5] = 10.0
    data[2:6, 7:11] = 9.0
    segm[2:6, 1:11] = 2
    data[6, 11] = 1.0
    segm[6, 11] = 2
    for k in range(4):
        data[7 + k, 12 + k] = 6.0
        segm[7 + k, 12 + k] = 2
    data[10:13, 1:4] = 4.0
    segm[10:13, 1:4] = 5
    out.append(('diagonal-tail', data, segm))
    # a full rectangle (no background pixel in its bounding box) with two peaks, next to a neighbour
    data = np.zeros((10, 20))
    segm = np.zeros((10, 20), dtype=int)
    yy, xx = np.mgrid[0:8, 0:16]
    data[1:9, 1:17] = 1.0 + 20 * np.exp(-((xx - 3.5) ** 2 + (yy - 3.5) ** 2) / 6.0) \
        + 18 * np.exp(-((xx - 11.5) ** 2 + (yy - 3.5) ** 2) / 6.0)
    segm[1:9, 1:17] = 1
    data[3:7, 18:20] = 5.0
    segm[3:7, 18:20] = 7
    out.append(('full-rectangle', data, segm))
    # an L-shaped thin parent with a peak at each end
    data = np.zeros((12, 12))
    segm = np.zeros((12, 12), dtype=int)
    data[1:11, 1:3] = 2.0
    data[9:11, 1:11] = 2.0
    data[1:4, 1:3] = 9.0
    data[9:11, 8:11] = 8.0
    segm[data > 0] = 3
    out.append(('thin-L', data, segm))
    # two two-peak parents; the first carries a one-pixel bump (a fragment below npixels at the
    # marker level, ahead of the peaks in raster order), so its markers arrive with a label gap
    data = np.zeros((9, 26))
    segm = np.zeros((9, 26), dtype=int)
    for label, x0 in ((1, 1), (2, 14)):
        data[1:8, x0:x0 + 11] = 2.0
        data[3:6, x0 + 1:x0 + 4] = 10.0
        data[3:6, x0 + 7:x0 + 10] = 9.0
        segm[1:8, x0:x0 + 11] = label
    data[1, 1] = 6.0
    out.append(('bump-before-peaks', data, segm))
    # the same with the bump between the peaks in raster order and three parents
    data = np.zeros((9, 39))
    segm = np.zeros((9, 39), dtype=int)
    for label, x0 in ((3, 1), (5, 14), (9, 27)):
        data[1:8, x0:x0 + 11] = 2.0
        data[2:5, x0 + 1:x0 + 4] = 10.0
        data[4:7, x0 + 7:x0 + 10] = 9.0
        segm[1:8, x0:x0 + 11] = label
    data[3, 6] = 6.0
    data[3, 19] = 6.0
    out.append(('bump-between-peaks', data, segm))
    # one parent on a pedestal: a diagonal bar with a peak at each end (a marker with a non-convex
    # footprint that splits at a higher level) and a blob with a bright core in the empty corner
    # of the bar's bounding box, one pixel of the blob sticking out below that box
    data = np.zeros((12, 14))
    data[0:10, :] = 1.0
    data[1:3, 1:6] = 5.0
    for r in range(3, 8):
        data[r, r + 2:r + 4] = 3.0
    data[8:10, 10:13] = 5.0
    data[6:10, 1:5] = 3.0
    data[7:9, 2:4] = 5.0
    data[10, 2] = 3.0
    segm = (data > 0).astype(int) * 7
    out.append(('diagonal-bar-corner-blob', data, segm))
    return out


def handmade_stage(ctx):
    SegmentationImage = _real()[0]
    n = 0
    for name, data, segm in handmade_scenes():
        for npix in (2, 3, 4, 6):
            for conn in (8, 4):
                if conn == 4 and name in ('diagonal-tail',):
                    continue       # that parent is only 8-connected: 4-connectivity is a documented error
                for relabel in (False, True):
                    for mode, nlevels in (('linear', 8), ('linear', 3), ('exponential', 16)):
                        params = {'labels': None, 'npixels': npix, 'nlevels': nlevels, 'contrast': 0.001,
                                  'mode': mode, 'connectivity': conn, 'relabel': relabel}
                        seg = SegmentationImage(segm.copy())
                        viol, nsplit, _ = eval_call(data, seg, params)
                        n += 1
                        spec = {'handmade': name}
                        ctx.case(('handmade', name, _pkey(params)), nontrivial=nsplit > 0,
                                 contract='deblend_sources/refinement+bookkeeping+frame')
                        _report(ctx, viol, {'kind': 'handmade', 'scene': spec, 'params': params})
    ctx.note(f'{n} calls on hand-made thin / diagonal / full-box scenes')


def run(ctx):
    _CAP.clear()
    handmade_stage(ctx)
    rng = ctx.rng
    nscenes = 40 if ctx.thorough else 10
    nrand = 400 if ctx.thorough else 100
    scenes = []
    t0 = time.time()
    ncalls = 0
    tries = 0
    while len(scenes) < nscenes and tries < 10 * nscenes:
        tries += 1
        spec = random_scene(rng)
        img = make_scene(spec)
        seg = make_seg(img, spec)
        if seg is None or seg.nlabels == 0:
            continue
        labels_all = [int(v) for v in seg.labels]
        scenes.append((spec, img, seg))
        plist = fixed_params(labels_all, spec['conn']) + [random_params(rng, labels_all, spec['conn']) for _ in range(nrand)]
        for params in plist:
            viol, nsplit, _ = eval_call(img, seg, params)
            ncalls += 1
            ctx.case(('call', repr(spec), _pkey(params)), nontrivial=nsplit > 0, contract='deblend_sources/refinement+bookkeeping+frame',
                     sample={'scene': spec, 'params': params, 'parents_split': nsplit} if ncalls % 400 == 3 else None)
            _report(ctx, viol, {'kind': 'call', 'scene': spec, 'params': params})
            if any(k.startswith('input/') for k, _ in viol):
                seg = make_seg(img, spec)       # continue with a pristine input object
                scenes[-1] = (spec, img, seg)
        # determinism of the serial path (same call twice)
        p = plist[0]
        try:
            d = same_output(call_deblend(img, seg, p), call_deblend(img, seg, p))
            v = [('schedule/serial-not-deterministic', d)] if d else []
        except Exception as e:  # noqa: BLE001
            v = [('exception/deblend_sources', f'raised {e!r}')]
        ctx.case(('repeat', repr(spec)), nontrivial=True, contract='deblend_sources/deterministic')
        _report(ctx, v, {'kind': 'call', 'scene': spec, 'params': p})
    ctx.note(f'{len(scenes)} scenes, {ncalls} serial calls, {time.time() - t0:.1f} s')

    # ---- scheduling on the in-process executor: every / many completion orders
    t1 = time.time()
    nperm_cases = 0
    full_upto = 5 if ctx.thorough else 4
    nsample = 120 if ctx.thorough else 30
    sched_scenes = list(scenes[:10] if ctx.thorough else scenes[:2])
    tries = 0
    while len(sched_scenes) < (30 if ctx.thorough else 8) and tries < 200:
        tries += 1
        spec = random_scene(rng, many=True)
        img = make_scene(spec)
        seg = make_seg(img, spec)
        if seg is not None and seg.nlabels >= 4:
            sched_scenes.append((spec, img, seg))
    scenes_many = sched_scenes[-3:]
    for (spec, img, seg) in sched_scenes:
        labels_all = [int(v) for v in seg.labels]
        for params in (fixed_params(labels_all, spec['conn'])[1], dict(fixed_params(labels_all, spec['conn'])[4], npixels=3)):
            try:
                serial = call_deblend(img, seg, params)
            except Exception:  # noqa: BLE001
                serial = None       # reported by eval_schedule
            ntasks = int(np.count_nonzero(np.asarray(seg.areas) >= 2 * params['npixels']))
            if ntasks <= full_upto:
                orders = [list(p) for p in itertools.permutations(range(ntasks))]
            else:
                orders = [[int(v) for v in rng.permutation(ntasks)] for _ in range(nsample)] + [list(range(ntasks))[::-1]]
            for oi, order in enumerate(orders):
                executor = 'inproc-lazy' if oi % 2 else 'inproc-eager'
                viol, nt = eval_schedule(img, seg, params, order, executor, serial=serial)
                if nt != ntasks:
                    viol.append(('schedule/task-count', f'{nt} tasks submitted, expected {ntasks}'))
                nperm_cases += 1
                ctx.case(('perm', repr(spec), _pkey(params), tuple(order), executor), nontrivial=ntasks >= 2,
                         contract='deblend_sources/completion-order-independent(in-process executor)')
                _report(ctx, viol, {'kind': 'schedule', 'scene': spec, 'params': params, 'order': order, 'executor': executor})
    ctx.note(f'{nperm_cases} permuted in-process schedules, {time.time() - t1:.1f} s')

    # ---- real spawn pools (expensive: seconds each)
    t2 = time.time()
    big = sorted(scenes_many + scenes, key=lambda s: -s[2].nlabels)
    nreal = 6 if ctx.thorough else 2
    nrev = 3 if ctx.thorough else 1
    for i, (spec, img, seg) in enumerate(big[:nreal]):
        labels_all = [int(v) for v in seg.labels]
        params = fixed_params(labels_all, spec['conn'])[i % 2]
        viol, nt = eval_schedule(img, seg, params, 'native', 'real')
        ctx.case(('real', repr(spec), _pkey(params), 'native'), nontrivial=True, contract='deblend_sources/nproc2==nproc1(spawn pool)')
        _report(ctx, viol, {'kind': 'schedule', 'scene': spec, 'params': params, 'order': 'native', 'executor': 'real'})
        if i < nrev:
            viol, nt = eval_schedule(img, seg, params, 'reversed', 'real')
            ctx.case(('real', repr(spec), _pkey(params), 'reversed'), nontrivial=nt >= 2,
                     contract='deblend_sources/completion-order-independent(spawn pool)')
            _report(ctx, viol, {'kind': 'schedule', 'scene': spec, 'params': params, 'order': 'reversed', 'executor': 'real'})
    ctx.note(f'real spawn-pool runs: {time.time() - t2:.1f} s')


def replay(case):
    try:
        if case['kind'] == 'handmade':
            SegmentationImage = _real()[0]
            for name, data, segm in handmade_scenes():
                if name == case['scene']['handmade']:
                    viol, _, _ = eval_call(data, SegmentationImage(segm.copy()), case['params'])
                    keys = [k for k, _ in viol]
                    return ('confirmed', viol[0][1], keys) if viol else ('spurious', 'no violation', [])
            return 'error', 'unknown hand-made scene', []
        spec = case['scene']
        img = make_scene(spec)
        seg = make_seg(img, spec)
        if seg is None:
            return 'error', 'scene gives no detection', None
        params = dict(case['params'])
        if case['kind'] == 'call':
            viol, _, _ = eval_call(img, seg, params)
            if case.get('key', '').endswith('serial-not-deterministic'):
                d = same_output(call_deblend(img, seg, params), call_deblend(img, seg, params))
                viol = [('schedule/serial-not-deterministic', d)] if d else []
        else:
            viol, _ = eval_schedule(img, seg, params, case['order'], case['executor'])
    except Exception as e:  # noqa: BLE001
        return 'error', repr(e), None
    keys = [k for k, _ in viol]
    if case.get('key') in keys:
        return 'confirmed', next(w for k, w in viol if k == case['key']), keys
    if viol:
        return 'confirmed', 'different violation: ' + '; '.join(f'{k}: {w}' for k, w in viol[:3]), keys
    return 'spurious', 'no violation on replay', []
