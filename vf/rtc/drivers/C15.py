"""C15 - results do not depend on how the same numbers are represented.

Representation matrix x public entry points.  The reference is the call with C-contiguous native float64
ndarrays; every other representation holds *exactly the same numbers* (the scenes are integer valued in
[0, 250], so they are exact in uint8/int16/float32/...), hence the expected result is the float64 result
(to float32 precision where float32 storage may legitimately be used for arithmetic).  The expectations on
units (outputs carry the unit / unit**2 / no unit) and on unit-ful + unit-less mixes (must raise) are written
here from the property statement and the public documentation, not taken from photutils.
"""
import warnings

import numpy as np

BOUNDS = (
    "Scenes: 40x48 integer-valued images (3 Gaussian sources, peak <= 200, pedestal 20, rounded noise; all values "
    "in [1, 250]) with an integer-valued error image (values 39..221, so that err**2 does not fit the narrow integer dtypes) from a sub-seed; quick 1 scene, thorough 6. "
    "Representations (32): of the data (the error array stays float64) float32; int64, int32, int16; uint8, uint16, uint64; big-endian >f8, >f4, "
    ">i2; Fortran order; strided views ([::2, ::2] of a 2x inflated array, negative strides, column slice of a "
    "wider array); MaskedArray with nomask and with an all-False mask array; NDData and NDData with unit (only for "
    "the entry points documented to accept NDData: aperture_photometry, ApertureStats, Background2D, PSFPhotometry); "
    "Quantity (Jy) float64 and float32 (data and error; thresholds/scalars carry the unit when the data do); "
    "NDData holding int16 / float32 arrays; and of the error array only (data float64): float32, int64, int16, uint8, "
    "uint16, >f8, >i2, Fortran order, strided, MaskedArray (evaluated only for entry points that take an error). "
    "Entry points (46 configurations of 35 entry points): aperture_photometry (exact, center), ApertureStats (plain, sigma_clip+local "
    "background), find_peaks (plain, centroid_func), DAOStarFinder, IRAFStarFinder, StarFinder (data "
    "representation; kernel representation), detect_sources, deblend_sources, SourceFinder, detect_threshold, "
    "SourceCatalog (plain; error+background+convolved_data+localbkg; segmentation-image dtype/layout), Background2D "
    "(default; mask+median estimator), the 9 background/RMS estimator classes (scalar and axis=1), LocalBackground, "
    "RadialProfile, CurveOfGrowth, centroid_com/quadratic/1dg/2dg (cutout, with error for 1dg/2dg), centroid_sources "
    "(com, 2dg; positions in the representation), PSFPhotometry (2 stars, CircularGaussianPRF, init_params; with "
    "LocalBackground), IterativePSFPhotometry (+ residual image), fit_2dgaussian, fit_fwhm, make_model_image "
    "(parameter-table column representation; unit-ful flux), aperture positions/radius in the representation, "
    "ApertureMask.multiply/cutout/get_values, calc_total_error (scalar and array gain; electron/s + s units), "
    "data_properties, gini, CutoutImage (inside, partial), isophote Ellipse.fit_image (plain containers only), "
    "extract_stars (NDData representations, reference = NDData(float64)). "
    "Tolerances vs the float64 reference, per output, scale = max|reference output|: discrete outputs (label images, "
    "peak indices, npix, areas, bbox, ids) identical; float outputs for representations holding the same float64 "
    "numbers (ints, big-endian, layout, masked, NDData, Quantity float64): |a-b| <= 1e-9*(|ref| + scale) "
    "(summation order may differ), outputs of iterative fits 1e-6; float32 storage: 2e-5*(|ref| + scale), "
    "fits 1e-3. Background2D with integer input (documented integer-typed mesh/output): |a-b| <= 3 counts and no "
    "other check on the values. "
    "Units: with Quantity (Jy) data every flux-like output must be a Quantity in Jy, variance-like in Jy**2, "
    "positions/shape parameters unit-less (or pix/deg as for plain input); values equal to the unit-less run. "
    "Unit mixes (39 calls): data with unit + error/threshold/background/local_bkg without (and vice versa) must raise."
)
RULE = (
    "A case is one (entry-point configuration, representation, scene) evaluation compared output-by-output with the "
    "float64 reference of the same scene, or one unit-mix call. Distinctness key = (entry, representation, scene "
    "sub-seed). Non-trivial when the reference call succeeds and returns at least one finite value (all "
    "configurations are built to detect/measure >= 2 sources). Representations not applicable to an entry point "
    "(NDData where it is not accepted) are not evaluated."
)

NY, NX = 40, 48


# ----------------------------------------------------------------------------------------------
# scene
# ----------------------------------------------------------------------------------------------
class Scene:
    def __init__(self, sub):
        rng = np.random.default_rng(int(sub))
        self.sub = int(sub)
        yy, xx = np.mgrid[0:NY, 0:NX]
        jx, jy = rng.integers(-1, 2, 2)
        self.src = np.array([(20 + jx, 18 + jy), (33, 27), (10, 30)], float)
        img = (180 * np.exp(-((xx - self.src[0, 0]) ** 2 + (yy - self.src[0, 1]) ** 2) / 10.0)
               + 140 * np.exp(-((xx - self.src[1, 0]) ** 2 / 8.0 + (yy - self.src[1, 1]) ** 2 / 12.0))
               + 90 * np.exp(-((xx - self.src[2, 0]) ** 2 + (yy - self.src[2, 1]) ** 2) / 9.0)
               + rng.normal(20, 2, xx.shape))
        self.base = np.clip(np.round(img), 1, 250).astype(np.int64)
        self.err = ((np.round(np.sqrt(self.base)) + 1) * 13).astype(np.int64)     # 39..221: err**2 overflows (u)int8/int16
        self.mask = np.zeros((NY, NX), bool)
        self.mask[rng.integers(0, NY, 6), rng.integers(0, NX, 6)] = True
        self.bkg = np.full((NY, NX), 20, np.int64)
        self._ref = {}


# ----------------------------------------------------------------------------------------------
# representations
# ----------------------------------------------------------------------------------------------
def _strided(a):
    big = np.repeat(np.repeat(a, 2, 0), 2, 1) if a.ndim == 2 else np.repeat(a, 2)
    return big[::2, ::2] if a.ndim == 2 else big[::2]


def _negstride(a):
    return np.ascontiguousarray(a[::-1, ::-1])[::-1, ::-1] if a.ndim == 2 else np.ascontiguousarray(a[::-1])[::-1]


def _colslice(a):
    if a.ndim == 1:
        w = np.zeros((a.size, 3), a.dtype)
        w[:, 1] = a
        return w[:, 1]
    w = np.full((a.shape[0], a.shape[1] + 7), 99, a.dtype)
    w[:, 3:3 + a.shape[1]] = a
    return w[:, 3:3 + a.shape[1]]


class Rep:
    def __init__(self, name, cls, conv, unit=False, nddata=False, unc='plain'):
        self.name, self.cls, self._conv, self.nddata = name, cls, conv, nddata
        self.has_unit = unit
        self.unc = unc          # how an NDData uncertainty holds the same errors (see _nd)

    @property
    def unit(self):
        import astropy.units as u
        return u.Jy if self.has_unit else None

    def a(self, arr):
        """Array-like (data, error, background, 1-D columns) in this representation."""
        out = self._conv(np.asarray(arr))
        if self.has_unit and not self.nddata:
            out = out * self.unit
        return out

    @property
    def group(self):
        """Coarse class used in failure keys: container first, then dtype / layout."""
        c = self.cls
        pre = 'error-' if c.startswith('error-') else ''
        c = c[len(pre):]
        if c.startswith('quantity'):
            g = 'quantity'
        elif c.startswith('nddata'):
            g = 'nddata'
        elif c == 'masked':
            g = 'masked'
        elif c in ('int', 'uint', 'bigendian-int'):
            g = 'int'
        elif c in ('float32', 'bigendian-float32'):
            g = 'float32'
        elif c == 'bigendian':
            g = 'bigendian'
        elif c in ('fortran', 'strided'):
            g = 'layout'
        else:
            g = c
        return pre + g

    def e(self, arr):
        """The error array.  Data representations leave the error in plain float64 (so that a failure is
        attributable to the data or to the error representation); the unit-ful ones must give it the same unit;
        the 'err_*' representations convert only the error."""
        if self.has_unit:
            return self.a(arr)
        return np.ascontiguousarray(arr).astype('f8')

    def s(self, v):
        """Scalar (threshold, local background) - carries the unit when the data do."""
        return v * self.unit if self.has_unit else v

    def raw(self, arr):
        """Plain container (no unit, no NDData) in this representation's dtype/layout."""
        return self._conv(np.asarray(arr))


def _mk(dt):
    return lambda a: np.ascontiguousarray(a).astype(dt)


class ErrRep(Rep):
    """float64 data, only the error array in the representation."""

    def __init__(self, name, cls, conv):
        Rep.__init__(self, name, cls, _mk('f8'))
        self._econv = conv
        self.err_only = True

    def e(self, arr):
        return self._econv(np.asarray(arr))


REPS = [
    Rep('f8', 'reference', _mk('f8')),
    Rep('f4', 'float32', _mk('f4')),
    Rep('i8', 'int', _mk('i8')),
    Rep('i4', 'int', _mk('i4')),
    Rep('i2', 'int', _mk('i2')),
    Rep('u1', 'uint', _mk('u1')),
    Rep('u2', 'uint', _mk('u2')),
    Rep('u8', 'uint', _mk('u8')),
    Rep('>f8', 'bigendian', _mk('>f8')),
    Rep('>f4', 'bigendian-float32', _mk('>f4')),
    Rep('>i2', 'bigendian-int', _mk('>i2')),
    Rep('F', 'fortran', lambda a: np.asfortranarray(a.astype('f8'))),
    Rep('strided', 'strided', lambda a: _strided(a.astype('f8'))),
    Rep('negstride', 'strided', lambda a: _negstride(a.astype('f8'))),
    Rep('colslice', 'strided', lambda a: _colslice(a.astype('f8'))),
    Rep('ma_nomask', 'masked', lambda a: np.ma.MaskedArray(a.astype('f8'))),
    Rep('ma_false', 'masked', lambda a: np.ma.MaskedArray(a.astype('f8'), mask=np.zeros(a.shape, bool))),
    Rep('nddata', 'nddata', _mk('f8'), nddata=True),
    Rep('nddata_unit', 'nddata', _mk('f8'), unit=True, nddata=True),
    # the same errors held as an uncertainty with its own (equivalent, differently scaled) unit,
    # and as a variance
    Rep('nddata_unit_mJyerr', 'nddata', _mk('f8'), unit=True, nddata=True, unc='mJy'),
    Rep('nddata_unit_var', 'nddata', _mk('f8'), unit=True, nddata=True, unc='var'),
    Rep('nddata_var', 'nddata', _mk('f8'), nddata=True, unc='var'),
    Rep('Jy', 'quantity', _mk('f8'), unit=True),
    Rep('Jy_f4', 'quantity-float32', _mk('f4'), unit=True),
    Rep('nddata_i2', 'nddata-int', _mk('i2'), nddata=True),
    Rep('nddata_f4', 'nddata-float32', _mk('f4'), nddata=True),
    ErrRep('err_f4', 'error-float32', _mk('f4')),
    ErrRep('err_i8', 'error-int', _mk('i8')),
    ErrRep('err_i2', 'error-int', _mk('i2')),
    ErrRep('err_u1', 'error-uint', _mk('u1')),
    ErrRep('err_u2', 'error-uint', _mk('u2')),
    ErrRep('err_>f8', 'error-bigendian', _mk('>f8')),
    ErrRep('err_>i2', 'error-bigendian-int', _mk('>i2')),
    ErrRep('err_F', 'error-fortran', lambda a: np.asfortranarray(a.astype('f8'))),
    ErrRep('err_strided', 'error-strided', lambda a: _strided(a.astype('f8'))),
    ErrRep('err_ma', 'error-masked', lambda a: np.ma.MaskedArray(a.astype('f8'))),
]
REPMAP = {r.name: r for r in REPS}
F32 = ('float32', 'bigendian-float32', 'quantity-float32', 'nddata-float32', 'error-float32')
INTS = ('int', 'uint', 'bigendian-int', 'nddata-int')
USES_ERROR = ('aperture_photometry', 'ApertureStats', 'find_peaks:centroid', 'SourceCatalog:full', 'RadialProfile',
              'CurveOfGrowth', 'centroid_1dg', 'centroid_2dg', 'PSFPhotometry', 'detect_threshold:full', 'fit_2dgaussian:fwhm',
              'calc_total_error', 'IterativePSFPhotometry')


# ----------------------------------------------------------------------------------------------
# outputs
# ----------------------------------------------------------------------------------------------
# an entry returns {name: (kind, value, upow)}:
#   kind 'exact' discrete / 'val' float / 'fit' float from an iterative fit / 'bkg' Background2D map
#   upow: expected power of the data unit carried by the output (0, 1, 2) or None = not checked
def _unit_of(v):
    import astropy.units as u
    un = getattr(v, 'unit', None)
    if un is None:
        return None
    if un == u.dimensionless_unscaled:
        return None
    return un


def _num(v):
    v = getattr(v, 'value', v)
    if isinstance(v, np.ma.MaskedArray):
        v = v.filled(np.nan)
    return np.asarray(v)


def table_out(t, spec, prefix=''):
    """spec: {colname: (kind, upow)}; every numeric column of the table must be in spec."""
    out = {}
    for c in t.colnames:
        col = t[c]
        if getattr(col, 'dtype', None) is None or col.dtype.kind not in 'fiub':
            continue
        kind, up = spec.get(c, ('val', None))
        out[prefix + c] = (kind, col, up)
    return out


def compare(ref, out, rep, entry):
    fails = []
    import astropy.units as u
    cls = rep.cls
    grp = rep.group
    ename = entry
    entry = entry.split(':')[0]
    if set(ref) != set(out):
        fails.append(('%s/%s/outputs' % (entry, grp), '%s[%s]: output sets differ: %s'
                      % (ename, rep.name, sorted(set(ref) ^ set(out)))))
        return fails
    for name, (kind, a, up) in ref.items():
        b = out[name][1]
        # --- units
        if up is not None:
            ub = _unit_of(b)
            ua = _unit_of(a)
            if rep.has_unit:
                exp = ua * (u.Jy ** up) if (ua is not None and up) else (u.Jy ** up if up else ua)
                if up == 0:
                    ok = (ub == ua) or (ub is None and ua is None)
                else:
                    ok = ub is not None and ub == exp
                if not ok:
                    fails.append(('%s/unit/%s' % (entry, name),
                                  '%s[%s]: output %r has unit %r, expected %r (data in Jy)'
                                  % (ename, rep.name, name, str(ub), str(exp))))
            else:
                if not ((ub == ua) or (ub is None and ua is None)):
                    fails.append(('%s/unit-spurious/%s' % (entry, name),
                                  '%s[%s]: output %r has unit %r, reference has %r (unit-less data)'
                                  % (ename, rep.name, name, str(ub), str(ua))))
        an, bn = _num(a), _num(b)
        if an.shape != bn.shape:
            fails.append(('%s/%s/shape' % (entry, grp), '%s[%s]: output %r shape %s, reference %s'
                          % (ename, rep.name, name, bn.shape, an.shape)))
            continue
        if kind == 'exact':
            if not np.array_equal(an.astype(float), bn.astype(float), equal_nan=True):
                nbad = int(np.sum(an.astype(float) != bn.astype(float)))
                fails.append(('%s/%s/value' % (entry, grp), '%s[%s]: discrete output %r differs in %d elements'
                              % (ename, rep.name, name, nbad)))
            continue
        af, bf = an.astype(float), bn.astype(float)
        if kind == 'bkg' and cls in INTS:
            if not np.all(np.abs(af - bf) <= 3.0):
                fails.append(('%s/%s/value' % (entry, grp),
                              '%s[%s]: %r differs from the float64 result by %.3g > 3 counts (beyond the documented '
                              'integer rounding)' % (ename, rep.name, name, np.nanmax(np.abs(af - bf)))))
            continue
        f32 = cls in F32
        if kind == 'fit':
            tol = 1e-3 if f32 else 1e-6
        else:
            tol = 2e-5 if f32 else 1e-9
        if not np.array_equal(np.isnan(af), np.isnan(bf)):
            fails.append(('%s/%s/value' % (entry, grp), '%s[%s]: output %r NaN pattern differs (%d vs %d NaN)'
                          % (ename, rep.name, name, np.isnan(bf).sum(), np.isnan(af).sum())))
            continue
        fin = np.isfinite(af) & np.isfinite(bf)
        if not np.array_equal(af[~fin & ~np.isnan(af)], bf[~fin & ~np.isnan(bf)]):
            fails.append(('%s/%s/value' % (entry, grp), '%s[%s]: output %r inf pattern differs'
                          % (ename, rep.name, name)))
            continue
        if not np.any(fin):
            continue
        scale = float(np.max(np.abs(af[fin])))
        d = np.abs(af[fin] - bf[fin])
        lim = tol * (np.abs(af[fin]) + scale)
        if np.any(d > lim):
            k = int(np.argmax(d - lim))
            fails.append(('%s/%s/value' % (entry, grp),
                          '%s[%s]: output %r differs from the float64 result: %.10g vs %.10g (|diff| %.3g > %.3g)'
                          % (ename, rep.name, name, bf[fin][k], af[fin][k], d[k], lim[k])))
    return fails


# ----------------------------------------------------------------------------------------------
# entry points
# ----------------------------------------------------------------------------------------------
def _nd(sc, rep, with_err=True, mask=None, data=None):
    from astropy.nddata import NDData, StdDevUncertainty
    kw = {}
    if with_err:
        import astropy.units as u
        from astropy.nddata import VarianceUncertainty
        e = sc.err.astype(float)
        if rep.unc == 'mJy':
            kw['uncertainty'] = StdDevUncertainty(e * 1000.0, unit=u.mJy)
        elif rep.unc == 'var':
            kw['uncertainty'] = VarianceUncertainty(e ** 2, unit=rep.unit ** 2 if rep.has_unit else None)
        else:
            kw['uncertainty'] = StdDevUncertainty(e)
    if rep.has_unit:
        kw['unit'] = rep.unit
    if mask is not None:
        kw['mask'] = mask
    return NDData(rep.raw(sc.base if data is None else data), **kw)


def _aps(sc):
    from photutils.aperture import CircularAperture
    return CircularAperture(sc.src, 5.0)


def e_aperture_photometry(sc, rep, cfg):
    from photutils.aperture import CircularAnnulus, aperture_photometry
    aps = [_aps(sc), CircularAnnulus(sc.src, 3.0, 6.5)]
    if rep.nddata:
        t = aperture_photometry(_nd(sc, rep), aps, method=cfg)
    else:
        t = aperture_photometry(rep.a(sc.base), aps, error=rep.e(sc.err), method=cfg)
    spec = {'id': ('exact', 0), 'xcenter': ('val', 0), 'ycenter': ('val', 0)}
    for i in (0, 1):
        spec['aperture_sum_%d' % i] = ('val', 1)
        spec['aperture_sum_err_%d' % i] = ('val', 1)
    return table_out(t, spec)


AS_U1 = ('sum', 'sum_err', 'min', 'max', 'mean', 'median', 'mode', 'std', 'mad_std', 'biweight_location')
AS_U2 = ('var', 'biweight_midvariance')
AS_U0 = ('xcentroid', 'ycentroid', 'sum_aper_area', 'center_aper_area', 'fwhm', 'semimajor_sigma',
         'semiminor_sigma', 'orientation', 'eccentricity')


def e_aperture_stats(sc, rep, cfg):
    from astropy.stats import SigmaClip
    from photutils.aperture import ApertureStats
    kw = {}
    if cfg == 'clip':
        kw = dict(sigma_clip=SigmaClip(sigma=3.0, maxiters=3), local_bkg=rep.s(np.array([20.0, 19.0, 21.0])),
                  sum_method='center')
        if not rep.has_unit:
            kw['local_bkg'] = np.array([20.0, 19.0, 21.0])
    if rep.nddata:
        s = ApertureStats(_nd(sc, rep), _aps(sc), **kw)
    else:
        s = ApertureStats(rep.a(sc.base), _aps(sc), error=rep.e(sc.err), **kw)
    spec = {'id': ('exact', 0)}
    spec.update({c: ('val', 1) for c in AS_U1})
    spec.update({c: ('val', 2) for c in AS_U2})
    spec.update({c: ('val', 0) for c in AS_U0})
    out = table_out(s.to_table(), spec)
    out['bbox_xmin'] = ('exact', s.bbox_xmin, None)
    out['gini'] = ('val', s.gini, 0)
    out['covar_sigx2'] = ('val', s.covar_sigx2, 0)
    out['cxx'] = ('val', s.cxx, 0)
    return out


def e_find_peaks(sc, rep, cfg):
    from photutils.centroids import centroid_com
    from photutils.detection import find_peaks
    kw = dict(box_size=5)
    if cfg == 'centroid':
        kw = dict(box_size=7, centroid_func=centroid_com, error=rep.e(sc.err), npeaks=3)
    t = find_peaks(rep.a(sc.base), rep.s(60), **kw)
    spec = {'id': ('exact', 0), 'x_peak': ('exact', 0), 'y_peak': ('exact', 0), 'peak_value': ('val', 1),
            'x_centroid': ('val', 0), 'y_centroid': ('val', 0)}
    return table_out(t, spec)


FINDER_SPEC = {'id': ('exact', 0), 'xcentroid': ('val', 0), 'ycentroid': ('val', 0), 'sharpness': ('val', 0),
               'roundness1': ('val', 0), 'roundness2': ('val', 0), 'npix': ('exact', 0), 'peak': ('val', 1),
               'flux': ('val', 1), 'mag': ('val', 0), 'daofind_mag': ('val', 0), 'fwhm': ('val', 0),
               'roundness': ('val', 0), 'pa': ('val', None), 'sky': ('val', 1)}


def e_dao(sc, rep, cfg):
    from photutils.detection import DAOStarFinder
    t = DAOStarFinder(rep.s(30), 4.0, roundlo=-2, roundhi=2, sharplo=0, sharphi=2)(rep.a(sc.base))
    return table_out(t, FINDER_SPEC)


def e_iraf(sc, rep, cfg):
    from photutils.detection import IRAFStarFinder
    t = IRAFStarFinder(rep.s(30), 4.0, sharplo=0, sharphi=5, roundlo=0, roundhi=5)(rep.a(sc.base))
    return table_out(t, FINDER_SPEC)


def _kernel_int():
    yy, xx = np.mgrid[0:9, 0:9]
    return np.round(100 * np.exp(-((xx - 4) ** 2 + (yy - 4) ** 2) / 10.0)).astype(np.int64)   # max 100, ints


def e_starfinder(sc, rep, cfg):
    from photutils.detection import StarFinder
    k = _kernel_int()
    if cfg == 'data':
        t = StarFinder(rep.s(40), k.astype(float), min_separation=3)(rep.a(sc.base))
    else:
        # the kernel in the representation (kernels carry no unit and are plain arrays), data float64
        if rep.nddata:
            return None
        kern = rep.raw(k)
        t = StarFinder(40, kern, min_separation=3)(sc.base.astype(float))
        rep = None
    out = table_out(t, FINDER_SPEC)
    if rep is None:
        out = {n: (k_, v, None) for n, (k_, v, up) in out.items()}
    return out


def e_detect(sc, rep, cfg):
    from photutils.segmentation import deblend_sources, detect_sources
    d = rep.a(sc.base)
    seg = detect_sources(d, rep.s(40), 5)
    out = {'data': ('exact', seg.data, None), 'labels': ('exact', seg.labels, None)}
    if cfg == 'deblend':
        seg0 = detect_sources(d, rep.s(24), 5)
        db = deblend_sources(d, seg0, 5, nlevels=16, contrast=0.01, progress_bar=False)
        out = {'data': ('exact', db.data, None), 'labels': ('exact', db.labels, None)}
    return out


SC_SPEC = {'label': ('exact', 0), 'xcentroid': ('val', 0), 'ycentroid': ('val', 0), 'bbox_xmin': ('exact', 0),
           'bbox_xmax': ('exact', 0), 'bbox_ymin': ('exact', 0), 'bbox_ymax': ('exact', 0), 'area': ('exact', None),
           'semimajor_sigma': ('val', None), 'semiminor_sigma': ('val', None), 'orientation': ('val', None),
           'eccentricity': ('val', 0), 'min_value': ('val', 1), 'max_value': ('val', 1),
           'local_background': ('val', 1), 'segment_flux': ('val', 1), 'segment_fluxerr': ('val', 1),
           'kron_flux': ('val', 1), 'kron_fluxerr': ('val', 1), 'kron_radius': ('val', None), 'fwhm': ('val', None),
           'gini': ('val', 0), 'xcentroid_win': ('val', 0), 'ycentroid_win': ('val', 0),
           'xcentroid_quad': ('val', 0), 'ycentroid_quad': ('val', 0), 'maxval_xindex': ('exact', 0),
           'minval_yindex': ('exact', 0), 'background_mean': ('val', 1), 'cxx': ('val', None),
           'ellipticity': ('val', 0), 'perimeter': ('val', None)}


def e_sourcecatalog(sc, rep, cfg):
    from photutils.segmentation import SegmentationImage, SourceCatalog, detect_sources
    if 'segm' not in sc._ref:
        sc._ref['segm'] = detect_sources(sc.base.astype(float), 40, 5).data.copy()
    segm = SegmentationImage(sc._ref['segm'].copy())
    cols = [c for c in SC_SPEC if c not in ('segment_fluxerr', 'kron_fluxerr', 'background_mean')]
    if cfg == 'plain':
        cat = SourceCatalog(rep.a(sc.base), segm)
    elif cfg == 'full':
        cat = SourceCatalog(rep.a(sc.base), segm, error=rep.e(sc.err), background=rep.a(sc.bkg),
                            localbkg_width=4, convolved_data=rep.a(sc.base))
        cols = list(SC_SPEC)
    elif cfg == 'segm':
        # the segmentation image in the representation's integer dtype/layout (data float64)
        if rep.cls not in INTS + ('fortran', 'strided', 'reference') or rep.nddata:
            return None
        sd = rep.raw(sc._ref['segm'])
        if sd.dtype.kind == 'f':
            sd = sd.astype(np.int64, order='K') if rep.cls != 'strided' else _strided(sc._ref['segm'].astype('i8'))
        cat = SourceCatalog(sc.base.astype(float), SegmentationImage(sd))
        out = table_out(cat.to_table(cols), SC_SPEC)
        return {n: (k_, v, None) for n, (k_, v, up) in out.items()}
    out = table_out(cat.to_table(cols), SC_SPEC)
    fr = cat.fluxfrac_radius(0.5)
    out['fluxfrac_radius'] = ('val', fr, None)
    return out


def e_background2d(sc, rep, cfg):
    from photutils.background import Background2D, MedianBackground
    kw = {}
    if cfg == 'mask':
        kw = dict(mask=sc.mask, filter_size=(1, 1), bkg_estimator=MedianBackground(), exclude_percentile=20.0)
    d = _nd(sc, rep, with_err=False) if rep.nddata else rep.a(sc.base)
    b = Background2D(d, (8, 8), **kw)
    return {'background': ('bkg', b.background, 1), 'background_rms': ('bkg', b.background_rms, 1),
            'background_median': ('bkg', b.background_median, 1),
            'background_rms_median': ('bkg', b.background_rms_median, 1),
            'background_mesh': ('bkg', b.background_mesh, 1)}


RADII = np.arange(0, 9)


def e_radial_profile(sc, rep, cfg):
    from photutils.profiles import CurveOfGrowth, RadialProfile
    xy = (float(sc.src[0, 0]), float(sc.src[0, 1]))
    if cfg == 'rp':
        p = RadialProfile(rep.a(sc.base), xy, RADII, error=rep.e(sc.err))
        out = {'profile': ('val', p.profile, 1), 'profile_error': ('val', p.profile_error, 1),
               'radius': ('val', p.radius, 0), 'area': ('val', p.area, 0),
               'gaussian_fwhm': ('fit', p.gaussian_fwhm, 0), 'gaussian_profile': ('fit', p.gaussian_profile, 1),
               'data_radius': ('val', p.data_radius, 0), 'data_profile': ('val', p.data_profile, 1)}
    else:
        p = CurveOfGrowth(rep.a(sc.base), xy, RADII[1:], error=rep.e(sc.err))
        out = {'profile': ('val', p.profile, 1), 'profile_error': ('val', p.profile_error, 1),
               'radius': ('val', p.radius, 0), 'area': ('val', p.area, 0)}
        p.normalize()
        out['ee_at_radius'] = ('val', p.calc_ee_at_radius(np.array([2.0, 5.0])), None)
    return out


def e_centroid(sc, rep, cfg):
    from photutils.centroids import centroid_1dg, centroid_2dg, centroid_com, centroid_quadratic
    f = dict(com=centroid_com, quadratic=centroid_quadratic, g1=centroid_1dg, g2=centroid_2dg)[cfg]
    ix, iy = int(sc.src[0, 0]), int(sc.src[0, 1])
    sl = (slice(iy - 8, iy + 9), slice(ix - 8, ix + 8))
    cut = rep.a(np.clip(sc.base[sl], 18, None) - 18)      # non-negative: exact in unsigned dtypes too
    kw = {}
    if cfg in ('g1', 'g2'):
        kw['error'] = rep.e(sc.err[sl])
    c = f(cut, **kw)
    return {'xy': ('fit' if cfg in ('g1', 'g2') else 'val', c, 0)}


def e_centroid_sources(sc, rep, cfg):
    from photutils.centroids import centroid_2dg, centroid_com, centroid_sources
    f = dict(com=centroid_com, g2=centroid_2dg)[cfg]
    d = rep.a(sc.base)
    # positions in the representation's dtype too (integer valued positions are exact in every dtype)
    xp = rep.raw(sc.src[:, 0]) if not rep.nddata else sc.src[:, 0]
    yp = rep.raw(sc.src[:, 1]) if not rep.nddata else sc.src[:, 1]
    x, y = centroid_sources(d, xp, yp, box_size=9, centroid_func=f)
    k = 'fit' if cfg == 'g2' else 'val'
    return {'x': (k, x, 0), 'y': (k, y, 0)}


def e_psfphot(sc, rep, cfg):
    from astropy.table import QTable
    from photutils.psf import CircularGaussianPRF, PSFPhotometry
    init = QTable()
    init['x'] = sc.src[:2, 0] + 0.25
    init['y'] = sc.src[:2, 1] - 0.25
    model = CircularGaussianPRF(fwhm=5.2)
    if cfg == 'bkg':
        from photutils.background import LocalBackground, MedianBackground
        phot = PSFPhotometry(model, (7, 7), aperture_radius=5,
                             localbkg_estimator=LocalBackground(7, 11, MedianBackground()))
    else:
        phot = PSFPhotometry(model, (7, 7), aperture_radius=5)
    dat = sc.base if cfg == 'bkg' else np.clip(sc.base, 20, None) - 20
    if rep.nddata:
        t = phot(_nd(sc, rep, data=dat), init_params=init)
    else:
        t = phot(rep.a(dat), error=rep.e(sc.err), init_params=init)
    out = {}
    for c, up in (('x_fit', 0), ('y_fit', 0), ('flux_fit', 1), ('x_err', 0), ('y_err', 0), ('flux_err', 1),
                  ('flux_init', 1), ('local_bkg', 1), ('qfit', 0), ('cfit', 0)):
        if c in t.colnames:
            out[c] = ('fit', t[c], up)
    out['npixfit'] = ('exact', t['npixfit'], None)
    out['flags'] = ('exact', t['flags'], None)
    return out


def e_make_model_image(sc, rep, cfg):
    from astropy.table import QTable, Table
    from photutils.datasets import make_model_image
    from photutils.psf import CircularGaussianPRF
    if rep.nddata:
        return None
    # parameter-table columns in the representation (integer-valued parameters: exact in every dtype)
    x = np.array([10, 25, 40, 4])
    y = np.array([12, 30, 20, 37])
    flux = np.array([100, 250, 50, 200])
    fwhm = np.array([3, 4, 2, 3])
    t = QTable() if rep.has_unit else Table()
    t['x_0'] = rep.raw(x)
    t['y_0'] = rep.raw(y)
    t['flux'] = rep.a(flux)
    t['fwhm'] = rep.raw(fwhm)
    img = make_model_image((NY, NX), CircularGaussianPRF(), t, model_shape=(9, 9))
    return {'image': ('val', img, 1)}


def e_aperture_repr(sc, rep, cfg):
    """Aperture positions and radius given in the representation; data float64."""
    from photutils.aperture import CircularAperture, aperture_photometry
    if rep.nddata or rep.has_unit or rep.cls == 'masked':
        return None
    pos = rep.raw(sc.src)
    r = rep.raw(np.array([5.0]))[0]
    ap = CircularAperture(pos, r)
    t = aperture_photometry(sc.base.astype(float), ap)
    return {'aperture_sum': ('val', t['aperture_sum'], None), 'xcenter': ('val', t['xcenter'], None),
            'area': ('val', ap.area, None)}



def e_detect_threshold(sc, rep, cfg):
    from photutils.segmentation import detect_threshold
    if cfg == 'plain':
        t = detect_threshold(rep.a(sc.base), 2.0)
    else:
        t = detect_threshold(rep.a(sc.base), 2.0, background=rep.a(sc.bkg), error=rep.e(sc.err))
    return {'threshold': ('val', t, 1)}


def e_sourcefinder(sc, rep, cfg):
    from photutils.segmentation import SourceFinder
    seg = SourceFinder(5, nlevels=16, contrast=0.01, progress_bar=False)(rep.a(sc.base), rep.s(24))
    return {'data': ('exact', seg.data, None), 'labels': ('exact', seg.labels, None)}


def e_calc_total_error(sc, rep, cfg):
    import astropy.units as u
    from photutils.utils import calc_total_error
    if rep.nddata:
        return None
    if rep.has_unit:
        # documented unit combination: data and bkg_error in the same unit, gain such that data*gain is in electrons
        d = rep.raw(sc.base) * (u.electron / u.s)
        be = rep.raw(sc.err) * (u.electron / u.s)
        gain = (4.0 if cfg == 'scalar' else rep.raw(np.full((NY, NX), 4))) * u.s
        t = calc_total_error(d, be, gain)
        ok = getattr(t, 'unit', None) == u.electron / u.s
        return {'total_error': ('val', _num(t), None), 'unit_ok': ('exact', np.array(1), None),
                'unit_is_electron_per_s': ('exact', np.array(int(ok)), None)}
    gain = 4.0 if cfg == 'scalar' else rep.raw(np.full((NY, NX), 4))
    t = calc_total_error(rep.a(sc.base), rep.e(sc.err), gain)
    return {'total_error': ('val', t, None), 'unit_ok': ('exact', np.array(1), None),
            'unit_is_electron_per_s': ('exact', np.array(1), None)}


def e_morphology(sc, rep, cfg):
    from photutils.morphology import data_properties, gini
    ix, iy = int(sc.src[1, 0]), int(sc.src[1, 1])
    sl = (slice(iy - 7, iy + 8), slice(ix - 6, ix + 7))
    cut = rep.a(np.clip(sc.base[sl], 20, None) - 20)
    if cfg == 'gini':
        return {'gini': ('val', gini(cut), 0)}
    cat = data_properties(cut, background=rep.a(np.full(sc.base[sl].shape, 2)))
    out = {}
    for nm, up in (('xcentroid', 0), ('ycentroid', 0), ('segment_flux', 1), ('min_value', 1), ('max_value', 1),
                   ('background_mean', 1), ('eccentricity', 0), ('gini', 0), ('kron_flux', 1)):
        out[nm] = ('val', getattr(cat, nm), up)
    for nm in ('semimajor_sigma', 'orientation', 'area', 'kron_radius'):
        out[nm] = ('val', getattr(cat, nm), None)
    out['maxval_xindex'] = ('exact', cat.maxval_xindex, None)
    return out


def e_aperture_mask(sc, rep, cfg):
    from photutils.aperture import CircularAperture, EllipticalAnnulus
    if cfg == 'circ':
        m = CircularAperture((float(sc.src[0, 0]) + 0.3, float(sc.src[0, 1]) - 0.2), 4.5).to_mask(method='exact')
    else:
        m = EllipticalAnnulus((3.0, 36.5), 2.0, 6.0, 4.0, theta=0.5).to_mask(method='center')   # partly off-image
    d = rep.a(sc.base)
    out = {'multiply': ('val', m.multiply(d), 1), 'cutout': ('val', m.cutout(d), 1),
           'get_values': ('val', m.get_values(d), 1), 'cutout_copy_fill': ('val', m.cutout(d, fill_value=7, copy=True), 1)}
    return out


def e_fit_2dgaussian(sc, rep, cfg):
    from photutils.psf import fit_2dgaussian, fit_fwhm
    d = rep.a(np.clip(sc.base, 20, None) - 20)
    xy = sc.src[:2] + 0.25
    if cfg == 'fwhm':
        f = fit_fwhm(d, xypos=xy, fit_shape=7, error=rep.e(sc.err))
        return {'fwhm': ('fit', f, 0)}
    r = fit_2dgaussian(d, xypos=xy, fit_shape=7, fwhm=4.0, fix_fwhm=False).results
    out = {}
    for c, up in (('x_fit', 0), ('y_fit', 0), ('flux_fit', 1), ('fwhm_fit', 0)):
        out[c] = ('fit', r[c], up)
    return out


def e_background_classes(sc, rep, cfg):
    from astropy.stats import SigmaClip
    from photutils.background import (BiweightLocationBackground, BiweightScaleBackgroundRMS, LocalBackground,
                                      MADStdBackgroundRMS, MeanBackground, MedianBackground, MMMBackground,
                                      ModeEstimatorBackground, SExtractorBackground, StdBackgroundRMS)
    d = rep.a(sc.base)
    if cfg == 'local':
        lb = LocalBackground(6, 10, MedianBackground())
        return {'local_bkg': ('val', lb(d, sc.src[:, 0], sc.src[:, 1]), 1)}
    out = {}
    sc3 = SigmaClip(sigma=3.0, maxiters=5)
    for cls in (MeanBackground, MedianBackground, MMMBackground, ModeEstimatorBackground, SExtractorBackground,
                BiweightLocationBackground, StdBackgroundRMS, MADStdBackgroundRMS, BiweightScaleBackgroundRMS):
        est = cls(sigma_clip=sc3)
        out[cls.__name__] = ('val', est(d), 1)
        out[cls.__name__ + '.axis1'] = ('val', cls(sigma_clip=None)(d, axis=1), 1)
    return out


def e_cutout_image(sc, rep, cfg):
    from photutils.utils import CutoutImage
    d = rep.a(sc.base)
    c1 = CutoutImage(d, (int(sc.src[0, 1]), int(sc.src[0, 0])), (9, 11), copy=True)
    c2 = CutoutImage(d, (1, 46), (7, 7), mode='partial', fill_value=3)
    return {'inside': ('val', c1.data, 1), 'partial': ('val', c2.data, 1),
            'bbox': ('exact', np.array([c2.bbox_original.ixmin, c2.bbox_original.iymax]), None)}


def e_ellipse(sc, rep, cfg):
    from photutils.isophote import Ellipse, EllipseGeometry
    if rep.nddata or rep.has_unit:
        return None      # Ellipse documents a plain 2-D array input
    g = EllipseGeometry(float(sc.src[1, 0]), float(sc.src[1, 1]), 4.0, 0.2, 1.2)
    iso = Ellipse(rep.a(sc.base), g).fit_image(sma0=4.0, minsma=2.0, maxsma=7.0, step=0.3)
    out = {}
    for nm in ('sma', 'intens', 'eps', 'pa', 'x0', 'y0', 'grad', 'rms'):
        out[nm] = ('fit', np.asarray(getattr(iso, nm), float), None)
    out['npix'] = ('exact', np.asarray(iso.ndata), None)
    out['stop_code'] = ('exact', np.asarray(iso.stop_code), None)
    return out


def e_iterative_psf(sc, rep, cfg):
    from photutils.detection import DAOStarFinder
    from photutils.psf import CircularGaussianPRF, IterativePSFPhotometry
    finder = DAOStarFinder(rep.s(30), 4.0, roundlo=-2, roundhi=2, sharplo=0, sharphi=2)
    phot = IterativePSFPhotometry(CircularGaussianPRF(fwhm=5.2), (7, 7), finder=finder, aperture_radius=5, maxiters=2)
    dat = np.clip(sc.base, 20, None) - 20
    if rep.nddata:
        t = phot(_nd(sc, rep, data=dat))
    else:
        t = phot(rep.a(dat), error=rep.e(sc.err))
    out = {}
    for c, up in (('x_fit', 0), ('y_fit', 0), ('flux_fit', 1), ('flux_err', 1), ('flux_init', 1)):
        out[c] = ('fit', t[c], up)
    out['iter_detected'] = ('exact', t['iter_detected'], None)
    res = phot.make_residual_image(rep.raw(dat) * rep.unit if rep.nddata and rep.has_unit else
                                   (rep.raw(dat) if rep.nddata else rep.a(dat)), psf_shape=(7, 7))
    out['residual'] = ('fit', res, 1)
    return out


def e_extract_stars(sc, rep, cfg):
    from astropy.table import Table
    from photutils.psf import extract_stars
    if not rep.nddata:
        return None
    t = Table()
    t['x'] = sc.src[:, 0]
    t['y'] = sc.src[:, 1]
    stars = extract_stars(_nd(sc, rep, with_err=False), t, size=9)
    return {'data': ('val', np.array([st.data for st in stars]), None),
            'flux': ('val', np.array([st.flux for st in stars]), None),
            'center': ('val', np.array([st.cutout_center for st in stars]), None)}


ND_OK = ('aperture_photometry', 'ApertureStats', 'Background2D', 'PSFPhotometry', 'extract_stars',
         'IterativePSFPhotometry')
# an uncertainty with its own unit, or held as a variance: only where the entry point converts the
# uncertainty itself (aperture_photometry / ApertureStats document a StdDevUncertainty in the data unit)
UNC_OK = ('PSFPhotometry', 'IterativePSFPhotometry')
ENTRIES = [
    ('aperture_photometry', e_aperture_photometry, ['exact', 'center']),
    ('ApertureStats', e_aperture_stats, ['plain', 'clip']),
    ('find_peaks', e_find_peaks, ['plain', 'centroid']),
    ('DAOStarFinder', e_dao, ['default']),
    ('IRAFStarFinder', e_iraf, ['default']),
    ('StarFinder', e_starfinder, ['data']),
    ('StarFinder.kernel', e_starfinder, ['kernel']),
    ('detect_sources', e_detect, ['detect']),
    ('deblend_sources', e_detect, ['deblend']),
    ('SourceCatalog', e_sourcecatalog, ['plain', 'full']),
    ('SourceCatalog.segm', e_sourcecatalog, ['segm']),
    ('Background2D', e_background2d, ['default', 'mask']),
    ('RadialProfile', e_radial_profile, ['rp']),
    ('CurveOfGrowth', e_radial_profile, ['cog']),
    ('centroid_com', e_centroid, ['com']),
    ('centroid_quadratic', e_centroid, ['quadratic']),
    ('centroid_1dg', e_centroid, ['g1']),
    ('centroid_2dg', e_centroid, ['g2']),
    ('centroid_sources', e_centroid_sources, ['com', 'g2']),
    ('PSFPhotometry', e_psfphot, ['plain', 'bkg']),
    ('make_model_image', e_make_model_image, ['params']),
    ('aperture_repr', e_aperture_repr, ['circ']),
    ('detect_threshold', e_detect_threshold, ['plain', 'full']),
    ('SourceFinder', e_sourcefinder, ['default']),
    ('calc_total_error', e_calc_total_error, ['scalar', 'array']),
    ('data_properties', e_morphology, ['props']),
    ('gini', e_morphology, ['gini']),
    ('ApertureMask', e_aperture_mask, ['circ', 'ellann']),
    ('fit_2dgaussian', e_fit_2dgaussian, ['fit', 'fwhm']),
    ('background_estimators', e_background_classes, ['classes']),
    ('LocalBackground', e_background_classes, ['local']),
    ('CutoutImage', e_cutout_image, ['cut']),
    ('Ellipse', e_ellipse, ['fit']),
    ('IterativePSFPhotometry', e_iterative_psf, ['default']),
    ('extract_stars', e_extract_stars, ['default']),
]
ENTRYMAP = {(n, c): f for n, f, cfgs in ENTRIES for c in cfgs}


def evaluate(sc, entry, cfg, repname):
    """-> (fails, status) ; status in {'ok', 'n/a', 'ref-failed'}"""
    rep = REPMAP[repname]
    if rep.nddata and entry not in ND_OK:
        return [], 'n/a'
    if rep.unc != 'plain' and entry not in UNC_OK:
        return [], 'n/a'
    if getattr(rep, 'err_only', False) and not (entry in USES_ERROR or '%s:%s' % (entry, cfg) in USES_ERROR):
        return [], 'n/a'
    f = ENTRYMAP[(entry, cfg)]
    ename = '%s:%s' % (entry, cfg)
    with warnings.catch_warnings():
        warnings.simplefilter('ignore')
        rk = (entry, cfg)
        if rk not in sc._ref:
            try:
                sc._ref[rk] = f(sc, REPMAP['nddata' if entry == 'extract_stars' else 'f8'], cfg)
            except Exception as e:  # noqa: BLE001
                sc._ref[rk] = e
        ref = sc._ref[rk]
        if isinstance(ref, Exception):
            return [('%s/reference/raises' % entry, '%s raised for the float64 reference: %s: %s'
                     % (ename, type(ref).__name__, ref))], 'ref-failed'
        try:
            out = f(sc, rep, cfg)
        except Exception as e:  # noqa: BLE001
            return [('%s/%s/raises' % (entry, rep.group),
                     '%s[%s] raised where float64 succeeds: %s: %s' % (ename, rep.name, type(e).__name__,
                                                                      str(e)[:200]))], 'ok'
    if out is None:
        return [], 'n/a'
    return compare(ref, out, rep, ename), 'ok'


# ----------------------------------------------------------------------------------------------
# unit mixes: each must raise
# ----------------------------------------------------------------------------------------------
def unit_mixes(sc):
    import astropy.units as u
    from astropy.stats import SigmaClip  # noqa: F401
    from photutils.aperture import ApertureStats, aperture_photometry
    from photutils.centroids import centroid_1dg, centroid_2dg
    from photutils.detection import DAOStarFinder, IRAFStarFinder, StarFinder, find_peaks
    from photutils.profiles import CurveOfGrowth, RadialProfile
    from photutils.psf import CircularGaussianPRF, PSFPhotometry, fit_fwhm
    from photutils.segmentation import (SegmentationImage, SourceCatalog, SourceFinder, detect_sources,
                                        detect_threshold)
    from photutils.utils import calc_total_error
    from astropy.table import QTable
    d = sc.base.astype(float)
    e = sc.err.astype(float)
    dq, eq = d * u.Jy, e * u.Jy
    ap = _aps(sc)
    xy = (float(sc.src[0, 0]), float(sc.src[0, 1]))
    segm = SegmentationImage(detect_sources(d, 40, 5).data)
    cut = (slice(10, 27), slice(12, 29))
    init = QTable()
    init['x'] = sc.src[:2, 0]
    init['y'] = sc.src[:2, 1]
    k = _kernel_int().astype(float)
    bkg = sc.bkg.astype(float)

    def psf(dd, ee):
        return PSFPhotometry(CircularGaussianPRF(fwhm=5.2), (7, 7), aperture_radius=5)(dd, error=ee,
                                                                                      init_params=init)
    return [
        ('aperture_photometry', 'data-unit+error-none', lambda: aperture_photometry(dq, ap, error=e)),
        ('aperture_photometry', 'data-none+error-unit', lambda: aperture_photometry(d, ap, error=eq)),
        ('ApertureStats', 'data-unit+error-none', lambda: ApertureStats(dq, ap, error=e).sum_err),
        ('ApertureStats', 'data-none+error-unit', lambda: ApertureStats(d, ap, error=eq).sum_err),
        ('ApertureStats', 'data-unit+local_bkg-none', lambda: ApertureStats(dq, ap, local_bkg=20.0).sum),
        ('ApertureStats', 'data-none+local_bkg-unit', lambda: ApertureStats(d, ap, local_bkg=20.0 * u.Jy).sum),
        ('find_peaks', 'data-unit+threshold-none', lambda: find_peaks(dq, 60.0)),
        ('find_peaks', 'data-none+threshold-unit', lambda: find_peaks(d, 60.0 * u.Jy)),
        ('find_peaks', 'data-unit+error-none', lambda: find_peaks(dq, 60.0 * u.Jy, error=e)),
        ('DAOStarFinder', 'data-unit+threshold-none', lambda: DAOStarFinder(30.0, 4.0)(dq)),
        ('DAOStarFinder', 'data-none+threshold-unit', lambda: DAOStarFinder(30.0 * u.Jy, 4.0)(d)),
        ('IRAFStarFinder', 'data-unit+threshold-none', lambda: IRAFStarFinder(30.0, 4.0)(dq)),
        ('IRAFStarFinder', 'data-none+threshold-unit', lambda: IRAFStarFinder(30.0 * u.Jy, 4.0)(d)),
        ('StarFinder', 'data-unit+threshold-none', lambda: StarFinder(40.0, k)(dq)),
        ('StarFinder', 'data-none+threshold-unit', lambda: StarFinder(40.0 * u.Jy, k)(d)),
        ('detect_sources', 'data-unit+threshold-none', lambda: detect_sources(dq, 40.0, 5)),
        ('detect_sources', 'data-none+threshold-unit', lambda: detect_sources(d, 40.0 * u.Jy, 5)),
        ('SourceCatalog', 'data-unit+error-none', lambda: SourceCatalog(dq, segm, error=e).segment_fluxerr),
        ('SourceCatalog', 'data-none+error-unit', lambda: SourceCatalog(d, segm, error=eq).segment_fluxerr),
        ('SourceCatalog', 'data-unit+background-none',
         lambda: SourceCatalog(dq, segm, background=bkg).background_mean),
        ('SourceCatalog', 'data-unit+convolved-none', lambda: SourceCatalog(dq, segm, convolved_data=d).xcentroid),
        ('RadialProfile', 'data-unit+error-none', lambda: RadialProfile(dq, xy, RADII, error=e).profile_error),
        ('RadialProfile', 'data-none+error-unit', lambda: RadialProfile(d, xy, RADII, error=eq).profile_error),
        ('CurveOfGrowth', 'data-unit+error-none', lambda: CurveOfGrowth(dq, xy, RADII[1:], error=e).profile_error),
        ('centroid_1dg', 'data-unit+error-none', lambda: centroid_1dg(dq[cut], error=e[cut])),
        ('centroid_1dg', 'data-none+error-unit', lambda: centroid_1dg(d[cut], error=eq[cut])),
        ('centroid_2dg', 'data-unit+error-none', lambda: centroid_2dg(dq[cut], error=e[cut])),
        ('PSFPhotometry', 'data-unit+error-none', lambda: psf(dq, e)),
        ('PSFPhotometry', 'data-none+error-unit', lambda: psf(d, eq)),
        ('detect_threshold', 'data-unit+error-none', lambda: detect_threshold(dq, 2.0, error=e)),
        ('detect_threshold', 'data-unit+background-none', lambda: detect_threshold(dq, 2.0, background=bkg)),
        ('detect_threshold', 'data-none+error-unit', lambda: detect_threshold(d, 2.0, error=eq)),
        ('SourceFinder', 'data-unit+threshold-none', lambda: SourceFinder(5, progress_bar=False)(dq, 24.0)),
        ('SourceFinder', 'data-none+threshold-unit', lambda: SourceFinder(5, progress_bar=False)(d, 24.0 * u.Jy)),
        ('calc_total_error', 'data-unit+bkg_error-none+gain-unit',
         lambda: calc_total_error(d * u.electron / u.s, e, 4.0 * u.s)),
        ('calc_total_error', 'data-unit+bkg_error-unit+gain-none',
         lambda: calc_total_error(d * u.electron / u.s, e * u.electron / u.s, 4.0)),
        ('calc_total_error', 'data-none+bkg_error-unit+gain-none',
         lambda: calc_total_error(d, e * u.electron / u.s, 4.0)),
        ('fit_fwhm', 'data-unit+error-none', lambda: fit_fwhm(dq - 20 * u.Jy, xypos=sc.src[:2], fit_shape=7, error=e)),
        ('fit_fwhm', 'data-none+error-unit', lambda: fit_fwhm(d - 20, xypos=sc.src[:2], fit_shape=7, error=eq)),
    ]


def eval_mix(sc, entry, which):
    for en, wh, fn in unit_mixes(sc):
        if en == entry and wh == which:
            with warnings.catch_warnings():
                warnings.simplefilter('ignore')
                try:
                    r = fn()
                except Exception as e:  # noqa: BLE001
                    return [], '%s: %s' % (type(e).__name__, str(e)[:120])
            return [('%s/unit-mix/%s' % (entry, which),
                     '%s: mixing unit-ful and unit-less inputs (%s) was accepted (returned %s) instead of raising'
                     % (entry, which, type(r).__name__))], 'returned'
    raise KeyError((entry, which))


def run(ctx):
    nscenes = 6 if ctx.thorough else 1
    nrec = {}

    def record(key, what, case):
        # every evaluation is checked; at most 4 failing cases are recorded per failure key
        nrec[key] = nrec.get(key, 0) + 1
        if nrec[key] <= 4:
            ctx.check(False, key, what, case=case)
    for _ in range(nscenes):
        sub = int(ctx.rng.integers(0, 2 ** 31 - 1))
        sc = Scene(sub)
        for entry, f, cfgs in ENTRIES:
            for cfg in cfgs:
                for rep in REPS:
                    if rep.name == 'f8':
                        continue
                    fails, status = evaluate(sc, entry, cfg, rep.name)
                    if status == 'n/a':
                        continue
                    ctx.case((entry, cfg, rep.name, sub), nontrivial=(status == 'ok'),
                             contract='%s/%s' % (entry, rep.cls),
                             sample={'entry': entry, 'cfg': cfg, 'rep': rep.name})
                    seen = set()
                    for key, what in fails:
                        if key in seen:
                            continue
                        seen.add(key)
                        record(key, what, {'kind': 'rep', 'sub': sub, 'entry': entry, 'cfg': cfg, 'rep': rep.name,
                                           'key': key})
        for entry, which, fn in unit_mixes(sc):
            fails, detail = eval_mix(sc, entry, which)
            ctx.case(('mix', entry, which, sub), nontrivial=True, contract='unit-mix/%s' % entry,
                     sample={'entry': entry, 'mix': which, 'outcome': detail})
            for key, what in fails:
                record(key, what, {'kind': 'mix', 'sub': sub, 'entry': entry, 'which': which, 'key': key})
    for key, n in sorted(nrec.items()):
        ctx.note('failure key %s: %d failing evaluations (first 4 recorded)' % (key, n))


def replay(case):
    try:
        sc = Scene(case['sub'])
        if case['kind'] == 'mix':
            fails, detail = eval_mix(sc, case['entry'], case['which'])
        else:
            fails, detail = evaluate(sc, case['entry'], case['cfg'], case['rep'])
    except Exception as e:  # noqa: BLE001
        return 'error', '%s: %s' % (type(e).__name__, e), None
    keys = sorted({k for k, _ in fails})
    if case.get('key') in keys:
        return 'confirmed', [w for k, w in fails if k == case['key']][0], {'failing_keys': keys}
    return 'spurious', 'no failure %s on replay (%s)' % (case.get('key'), detail), {'failing_keys': keys}
