"""C02 - aperture sums are mask-weighted sums over the unmasked in-image pixels.

Bounded run-time contract driver (engine E4).  Real code under test: aperture_photometry,
PixelAperture.do_photometry, PixelAperture.area_overlap, SkyAperture -> to_pixel path of aperture_photometry.

Oracle (written from the property statement): for one position the aperture weight map w is the ApertureMask
(to_mask(method, subpixels).data, C01's object) laid on the image with its bbox origin; explicit Python loops over
the pixels of the box that lie inside the image give
    sum  = SUM w*data       over pixels with w > 0 and not masked
    err  = sqrt(SUM w*err^2) over the same pixels
    area = SUM w             over the pixels that are not masked
and NaN for all three iff no pixel of the box lies in the image.  Relational contracts (batch == one at a time,
list of apertures == one at a time, linearity, independence from values of masked / zero-weight / outside pixels,
NDData / Quantity call forms == bare arrays, sky aperture == its to_pixel(wcs) image) need no oracle.
"""
import math

import numpy as np

BOUNDS = (
    "Images (ny,nx) in {1x1, 1x4, 2x2, 3x5, 5x3, 7x9} (quick: 1x1, 3x5, 7x9, 1x4), float64 data ~N(5,3) either finite or with "
    "about 8% NaN and one +inf / -inf pixel, one int64 image; masks in {None, random 25%, all True, all False}; error maps in "
    "{None, uniform(0.1,1.1)}; the 6 pixel-aperture classes x 2 sizes (semi-sizes 0.3..3.2, rotated), methods exact, center, "
    "subpixel with subpixels in {1,3,5}; 14-16 positions per image: inside (integer, half-integer, generic), straddling each "
    "edge and two corners, box exactly touching / just missing the image border, fully outside, 1e5 away. Tolerances: sums, "
    "errors^2 and areas abs <= 1e-12*(SUM|w*x| + 1) against the loop oracle, NaN/inf compared exactly; batch vs single, list vs "
    "single, call forms, independence and sky-vs-to_pixel compared bitwise (NaN == NaN); linearity abs <= 1e-11*(scale+1). "
    "Sky apertures: 6 sky classes on an un-rotated and a 30-degree-rotated TAN WCS (0.5 arcsec/pixel), 4 positions; "
    "independent to_pixel parameters (r/scale, theta+90deg) checked to 1e-6 on the un-rotated WCS for circle/ellipse exact sums."
)
RULE = (
    "Product image x mask x error x aperture (class, size) x method; all positions of the image go into one multi-position "
    "aperture. A case is (image id, mask id, error id, aperture parameters, method, subpixels, position); it is non-trivial when "
    "the box overlaps the image (finite expectation involving at least one pixel); off-image positions are counted as trivial. "
    "Relational contracts are evaluated once per (image, mask, error, aperture, method) combination."
)


# ----------------------------------------------------------------------------------------------
# builders (deterministic from the JSON-able case description)
# ----------------------------------------------------------------------------------------------
APER_SPECS = [
    ('circ', (1.7,)), ('circ', (0.3,)),
    ('cann', (0.8, 2.3)), ('cann', (0.2, 0.45)),
    ('ell', (2.2, 0.9, 0.7)), ('ell', (0.6, 0.25, 2.0)),
    ('eann', (1.0, 2.5, 1.5, 0.6, 2.1)), ('eann', (0.3, 0.9, 0.5, 1.0 / 6.0, 0.4)),
    ('rect', (2.5, 1.3, 0.3)), ('rect', (0.7, 0.5, 1.2)),
    ('rann', (1.0, 3.0, 2.0, 2.0 / 3.0, 1.0)), ('rann', (0.4, 1.2, 0.9, 0.3, 2.5)),
]
METHODS = [('exact', 5), ('center', 5), ('subpixel', 1), ('subpixel', 3), ('subpixel', 5)]


def make_aperture(kind, p, positions):
    from photutils.aperture import (CircularAnnulus, CircularAperture, EllipticalAnnulus, EllipticalAperture,
                                    RectangularAnnulus, RectangularAperture)
    if kind == 'circ':
        return CircularAperture(positions, p[0])
    if kind == 'cann':
        return CircularAnnulus(positions, p[0], p[1])
    if kind == 'ell':
        return EllipticalAperture(positions, p[0], p[1], theta=p[2])
    if kind == 'eann':
        return EllipticalAnnulus(positions, p[0], p[1], p[2], b_in=p[3], theta=p[4])
    if kind == 'rect':
        return RectangularAperture(positions, p[0], p[1], theta=p[2])
    if kind == 'rann':
        return RectangularAnnulus(positions, p[0], p[1], p[2], h_in=p[3], theta=p[4])
    raise ValueError(kind)


def max_extent(kind, p):
    return {'circ': lambda: p[0], 'cann': lambda: p[1], 'ell': lambda: max(p[0], p[1]),
            'eann': lambda: max(p[1], p[2]), 'rect': lambda: 0.5 * math.hypot(p[0], p[1]),
            'rann': lambda: 0.5 * math.hypot(p[1], p[2])}[kind]()


def make_image(shape, variant, seed):
    ny, nx = shape
    rng = np.random.default_rng([seed, ny, nx, 11])
    data = rng.normal(5.0, 3.0, (ny, nx))
    if variant == 'nonfinite':
        data[rng.random((ny, nx)) < 0.08] = np.nan
        if ny * nx >= 9:
            data[ny // 2, nx // 3] = np.inf
            data[ny - 1, nx - 2] = -np.inf
    elif variant == 'int':
        data = np.round(data * 10).astype(np.int64)
    err = rng.random((ny, nx)) + 0.1
    return data, err


def make_mask(shape, mid, seed):
    ny, nx = shape
    if mid == 'none':
        return None
    if mid == 'random':
        return np.random.default_rng([seed, ny, nx, 23]).random((ny, nx)) < 0.25
    if mid == 'all':
        return np.ones((ny, nx), bool)
    return np.zeros((ny, nx), bool)


def positions_for(shape, kind, p):
    ny, nx = shape
    e = max_extent(kind, p)
    return [(0.0, 0.0), (nx / 2 - 0.3, ny / 2 + 0.2), (nx - 1.0, ny - 0.5), (0.5, 0.5), (nx - 1.0, 0.0),
            (-0.6, 1.2), (nx - 0.5 + 0.3, ny / 2.0), (nx / 2.0, -0.5), (nx / 3.0, ny - 0.4), (-0.4, ny - 0.7),
            (-0.5 - e, ny / 2.0), (-0.5 - e + 1e-9, ny / 2.0), (nx / 2.0, ny - 0.5 + e), (nx + 30.0, ny + 30.0),
            (1.0, -40.0), (1e5, -1e5)]


# ----------------------------------------------------------------------------------------------
# the oracle
# ----------------------------------------------------------------------------------------------
def loop_oracle(data, err, mask, W, ixmin, iymin):
    """Explicit pixel loops.  Returns dict(sum, var, area, overlap, scale_s, scale_v)."""
    ny, nx = data.shape
    s = 0.0
    v = 0.0
    a = 0.0
    sc_s = 0.0
    sc_v = 0.0
    inimg = False
    npos = 0
    for j in range(W.shape[0]):
        y = iymin + j
        if y < 0 or y >= ny:
            continue
        for i in range(W.shape[1]):
            x = ixmin + i
            if x < 0 or x >= nx:
                continue
            inimg = True
            if mask is not None and mask[y, x]:
                continue
            w = float(W[j, i])
            a += w
            if w > 0:
                npos += 1
                d = float(data[y, x])
                s += w * d
                if math.isfinite(d):
                    sc_s += abs(w * d)
                if err is not None:
                    ee = float(err[y, x])
                    v += w * ee * ee
                    sc_v += abs(w * ee * ee)
    if not inimg:
        return {'sum': math.nan, 'var': math.nan, 'area': math.nan, 'overlap': False, 'sc_s': 0.0, 'sc_v': 0.0, 'npos': 0}
    return {'sum': s, 'var': v, 'area': a, 'overlap': True, 'sc_s': sc_s, 'sc_v': sc_v, 'npos': npos}


def _close(got, exp, scale, rel=1e-12):
    got = float(got)
    if math.isnan(exp):
        return math.isnan(got)
    if math.isinf(exp):
        return got == exp
    return math.isfinite(got) and abs(got - exp) <= rel * (scale + 1.0)


def _same(a, b):
    a = np.asarray(a, dtype=float)
    b = np.asarray(b, dtype=float)
    return a.shape == b.shape and np.array_equal(a, b, equal_nan=True)


def _val(x):
    return np.asarray(getattr(x, 'value', x), dtype=float)


# ----------------------------------------------------------------------------------------------
# evaluation of one combination (shared by run and replay)
# ----------------------------------------------------------------------------------------------
def eval_combo(case, counter=None):
    """case: dict(shape, variant, mask, err, aper=[kind, params], method, subpixels, seed, extras=bool).
    Returns list of (key, what, position_index)."""
    from photutils.aperture import aperture_photometry
    shape = tuple(case['shape'])
    data, errmap = make_image(shape, case['variant'], case['seed'])
    mask = make_mask(shape, case['mask'], case['seed'])
    err = errmap if case['err'] else None
    kind, p = case['aper']
    method, sub = case['method'], case['subpixels']
    pos = positions_for(shape, kind, p)
    fails = []
    tag = f"img={shape}/{case['variant']} mask={case['mask']} err={case['err']} aper={kind}{tuple(p)} {method}/{sub}"

    def bad(key, what, k=None):
        fails.append((key, f'{what} [{tag}]', k))

    ap = make_aperture(kind, p, pos)
    try:
        tbl = aperture_photometry(data, ap, error=err, mask=mask, method=method, subpixels=sub)
        dsum, derr = ap.do_photometry(data, error=err, mask=mask, method=method, subpixels=sub)
        area = ap.area_overlap(data, mask=mask, method=method, subpixels=sub)
        masks = ap.to_mask(method=method, subpixels=sub)
    except Exception as e:  # noqa: BLE001
        bad('call/raises', f'{type(e).__name__}: {e}')
        return fails

    n = len(pos)
    # -- table assembly
    if list(tbl['id']) != list(range(1, n + 1)):
        bad('table/id-not-1..N', f'id={list(tbl["id"])}')
    xc = _val(tbl['xcenter'])
    yc = _val(tbl['ycenter'])
    if not (_same(xc, [q[0] for q in pos]) and _same(yc, [q[1] for q in pos])):
        bad('table/xcenter-ycenter-not-positions', f'x={xc.tolist()} y={yc.tolist()}')
    if ('aperture_sum_err' in tbl.colnames) != (err is not None):
        bad('table/sum_err-column-presence', f'colnames={tbl.colnames}')
    tsum = _val(tbl['aperture_sum'])
    if not _same(tsum, dsum):
        bad('table/sum-differs-from-do_photometry', f'{tsum.tolist()} vs {np.asarray(dsum).tolist()}')
    if err is not None:
        terr = _val(tbl['aperture_sum_err'])
        if not _same(terr, derr):
            bad('table/sum_err-differs-from-do_photometry', f'{terr.tolist()} vs {np.asarray(derr).tolist()}')
    else:
        terr = None

    # -- loop oracle per position
    for k in range(n):
        m = masks[k]
        W = np.asarray(m.data, dtype=float)
        o = loop_oracle(data, err, mask, W, m.bbox.ixmin, m.bbox.iymin)
        if counter is not None:
            counter(k, pos[k], o)
        if not _close(tsum[k], o['sum'], o['sc_s']):
            key = 'sum/not-nan-without-overlap' if not o['overlap'] else ('sum/nan-or-wrong-with-overlap' if math.isnan(float(tsum[k])) and not math.isnan(o['sum']) else 'sum/differs-from-pixel-loop')
            bad(key, f'pos={pos[k]} got {float(tsum[k])!r} expected {o["sum"]!r}', k)
        if err is not None:
            ev = math.sqrt(o['var']) if o['overlap'] else math.nan
            g = float(terr[k])
            ok = (math.isnan(ev) and math.isnan(g)) or (math.isfinite(g) and abs(g * g - o['var']) <= 1e-12 * (o['sc_v'] + 1.0))
            if not ok:
                bad('sum_err/differs-from-pixel-loop', f'pos={pos[k]} got {g!r} expected {ev!r}', k)
        if not _close(area[k], o['area'], abs(o['area']) if o['overlap'] else 0.0):
            bad('area_overlap/differs-from-pixel-loop', f'pos={pos[k]} got {float(area[k])!r} expected {o["area"]!r}', k)

    # -- batch == one at a time (do_photometry / area_overlap, bitwise)
    for k in range(n):
        a1 = make_aperture(kind, p, pos[k])
        try:
            s1, e1 = a1.do_photometry(data, error=err, mask=mask, method=method, subpixels=sub)
            ar1 = a1.area_overlap(data, mask=mask, method=method, subpixels=sub)
        except Exception as e:  # noqa: BLE001
            bad('single/raises', f'pos={pos[k]} {type(e).__name__}: {e}', k)
            continue
        if not (_same(s1, [dsum[k]]) and (err is None or _same(e1, [derr[k]]))):
            bad('batch/differs-from-one-at-a-time', f'pos={pos[k]} single={np.asarray(s1).tolist()} batch={float(dsum[k])!r}', k)
        if not _same(ar1, area[k]):
            bad('batch/area-differs-from-one-at-a-time', f'pos={pos[k]} single={float(ar1)!r} batch={float(area[k])!r}', k)
    # reversed order gives reversed results
    apr = make_aperture(kind, p, pos[::-1])
    sr, er = apr.do_photometry(data, error=err, mask=mask, method=method, subpixels=sub)
    if not (_same(sr[::-1], dsum) and (err is None or _same(er[::-1], derr))):
        bad('batch/order-dependence', 'reversed position list does not give reversed sums')

    if not case.get('extras'):
        return fails

    # -- ApertureMask.get_values / multiply against explicit loops
    ny, nx = shape
    for k in range(n):
        m = masks[k]
        W = np.asarray(m.data, dtype=float)
        x0, y0 = m.bbox.ixmin, m.bbox.iymin
        ev = []
        em = np.zeros(W.shape)
        anyin = False
        for j in range(W.shape[0]):
            for i in range(W.shape[1]):
                y, x = y0 + j, x0 + i
                inside = 0 <= y < ny and 0 <= x < nx
                anyin = anyin or inside
                if W[j, i] == 0:
                    em[j, i] = -3.0
                elif inside:
                    em[j, i] = float(data[y, x]) * W[j, i]
                    if mask is None or not mask[y, x]:
                        ev.append(float(data[y, x]) * W[j, i])
                else:
                    em[j, i] = -3.0 * W[j, i]
        try:
            gv = m.get_values(data, mask=mask)
            gm = m.multiply(data, fill_value=-3.0)
        except Exception as e:  # noqa: BLE001
            bad('mask-values/raises', f'pos={pos[k]} {type(e).__name__}: {e}', k)
            continue
        if not (np.asarray(gv).ndim == 1 and _same(gv, ev)):
            bad('get_values/differs-from-pixel-loop', f'pos={pos[k]} got {np.asarray(gv).tolist()} expected {ev}', k)
        if (gm is None) != (not anyin) or (gm is not None and not _same(gm, em)):
            bad('multiply/differs-from-pixel-loop', f'pos={pos[k]}', k)

    # -- independence from the values of masked / zero-weight / outside pixels
    Z = np.ones(shape, bool)       # pixels that matter for NO position
    for k in range(n):
        m = masks[k]
        W = np.asarray(m.data)
        for j in range(W.shape[0]):
            y = m.bbox.iymin + j
            if 0 <= y < ny:
                for i in range(W.shape[1]):
                    x = m.bbox.ixmin + i
                    if 0 <= x < nx and W[j, i] > 0:
                        Z[y, x] = False
    if mask is not None:
        Z |= mask
    if Z.any() and data.dtype.kind == 'f':
        for junk in (np.nan, np.inf, -1e300):
            d2 = data.copy()
            d2[Z] = junk
            e2 = None
            if err is not None:
                e2 = err.copy()
                e2[Z] = junk if junk > 0 or junk != junk else 7e200
            s2, er2 = ap.do_photometry(d2, error=e2, mask=mask, method=method, subpixels=sub)
            if not _same(s2, dsum):
                bad('independence/sum-depends-on-masked-or-zero-weight-pixels', f'junk={junk}: {np.asarray(s2).tolist()} vs {np.asarray(dsum).tolist()}')
            if err is not None and not _same(er2, derr):
                bad('independence/err-depends-on-masked-or-zero-weight-pixels', f'junk={junk}')
    # inputs are not modified
    d0, e0 = make_image(shape, case['variant'], case['seed'])
    m0 = make_mask(shape, case['mask'], case['seed'])
    if not (_same(d0, data) and _same(e0, errmap) and (mask is None or np.array_equal(m0, mask))):
        bad('frame/inputs-modified', 'data, error or mask changed by the calls')

    # -- linearity (finite data only)
    if case['variant'] == 'finite':
        d1 = data
        d2 = np.random.default_rng([case['seed'], 5]).normal(0.0, 2.0, shape)
        a_, b_ = 2.5, -1.25
        s1 = ap.do_photometry(d1, mask=mask, method=method, subpixels=sub)[0]
        s2 = ap.do_photometry(d2, mask=mask, method=method, subpixels=sub)[0]
        s3 = ap.do_photometry(a_ * d1 + b_ * d2, mask=mask, method=method, subpixels=sub)[0]
        for k in range(n):
            if math.isnan(float(s1[k])):
                ok = math.isnan(float(s3[k])) and math.isnan(float(s2[k]))
            else:
                W = np.asarray(masks[k].data)
                scale = float(np.sum(np.abs(W))) * (abs(a_) * np.abs(d1).max() + abs(b_) * np.abs(d2).max())
                ok = abs(float(s3[k]) - (a_ * float(s1[k]) + b_ * float(s2[k]))) <= 1e-11 * (scale + 1.0)
            if not ok:
                bad('linearity/sum-not-linear-in-data', f'pos={pos[k]}: S(a d1+b d2)={float(s3[k])!r} a S(d1)+b S(d2)={a_ * float(s1[k]) + b_ * float(s2[k])!r}', k)

    # -- list of apertures == one at a time
    kind2, p2 = APER_SPECS[(APER_SPECS.index((kind, tuple(p))) + 5) % len(APER_SPECS)]
    ap2 = make_aperture(kind2, p2, pos)
    try:
        tl = aperture_photometry(data, [ap, ap2, ap], error=err, mask=mask, method=method, subpixels=sub)
        t2 = aperture_photometry(data, ap2, error=err, mask=mask, method=method, subpixels=sub)
        ok = (_same(_val(tl['aperture_sum_0']), tsum) and _same(_val(tl['aperture_sum_1']), _val(t2['aperture_sum']))
              and _same(_val(tl['aperture_sum_2']), tsum))
        if err is not None:
            ok = ok and _same(_val(tl['aperture_sum_err_0']), terr) and _same(_val(tl['aperture_sum_err_1']), _val(t2['aperture_sum_err'])) \
                and _same(_val(tl['aperture_sum_err_2']), terr)
        else:
            ok = ok and not any(c.startswith('aperture_sum_err') for c in tl.colnames)
        if not ok:
            bad('list/differs-from-one-aperture-at-a-time', f'second aperture {kind2}{p2}')
        if not (_same(_val(tl['xcenter']), xc) and list(tl['id']) == list(range(1, n + 1))):
            bad('list/table-id-or-centres', '')
    except Exception as e:  # noqa: BLE001
        bad('list/raises', f'{type(e).__name__}: {e}')

    # -- call forms: NDData and Quantity
    import astropy.units as u
    from astropy.nddata import NDData, StdDevUncertainty
    try:
        unc = StdDevUncertainty(err) if err is not None else None
        nd = NDData(data, uncertainty=unc, mask=mask)
        tn = aperture_photometry(nd, ap, method=method, subpixels=sub)
        if not (_same(_val(tn['aperture_sum']), tsum) and (err is None or _same(_val(tn['aperture_sum_err']), terr))
                and ('aperture_sum_err' in tn.colnames) == (err is not None)):
            bad('nddata/differs-from-bare-arrays', f'{_val(tn["aperture_sum"]).tolist()} vs {tsum.tolist()}')
        ndu = NDData(data, uncertainty=unc, mask=mask, unit=u.Jy)
        tnu = aperture_photometry(ndu, ap, method=method, subpixels=sub)
        if not (_same(_val(tnu['aperture_sum']), tsum) and tnu['aperture_sum'].unit == u.Jy
                and (err is None or (_same(_val(tnu['aperture_sum_err']), terr) and tnu['aperture_sum_err'].unit == u.Jy))):
            bad('nddata/unit-form-differs', '')
        tq = aperture_photometry(data * u.Jy, ap, error=None if err is None else err * u.Jy, mask=mask, method=method, subpixels=sub)
        if not (_same(_val(tq['aperture_sum']), tsum) and tq['aperture_sum'].unit == u.Jy
                and (err is None or (_same(_val(tq['aperture_sum_err']), terr) and tq['aperture_sum_err'].unit == u.Jy))):
            bad('quantity/differs-from-bare-arrays', '')
        sq, eq = ap.do_photometry(data * u.Jy, error=None if err is None else err * u.Jy, mask=mask, method=method, subpixels=sub)
        if not (_same(_val(sq), dsum) and getattr(sq, 'unit', None) == u.Jy):
            bad('quantity/do_photometry-differs', '')
    except Exception as e:  # noqa: BLE001
        bad('callform/raises', f'{type(e).__name__}: {e}')
    return fails


# ----------------------------------------------------------------------------------------------
# sky apertures
# ----------------------------------------------------------------------------------------------
def make_wcs(rot_deg):
    from astropy.wcs import WCS
    w = WCS(naxis=2)
    w.wcs.ctype = ['RA---TAN', 'DEC--TAN']
    w.wcs.crpix = [4.0, 5.0]       # 1-based -> pixel (3, 4) 0-based
    w.wcs.crval = [10.0, 20.0]
    s = 0.5 / 3600.0
    if rot_deg == 0:
        w.wcs.cdelt = [-s, s]
    else:
        a = math.radians(rot_deg)
        w.wcs.cd = [[-s * math.cos(a), s * math.sin(a)], [s * math.sin(a), s * math.cos(a)]]
    return w


SKY_SPECS = [('circ', (1.7,)), ('cann', (0.8, 2.3)), ('ell', (2.2, 0.9, 0.7)), ('eann', (1.0, 2.5, 1.5, 0.6, 2.1)),
             ('rect', (2.5, 1.3, 0.3)), ('rann', (1.0, 3.0, 2.0, 2.0 / 3.0, 1.0))]


def make_sky_aperture(kind, p, sky, scale=0.5):
    import astropy.units as u
    from photutils.aperture import (SkyCircularAnnulus, SkyCircularAperture, SkyEllipticalAnnulus,
                                    SkyEllipticalAperture, SkyRectangularAnnulus, SkyRectangularAperture)
    A = u.arcsec
    if kind == 'circ':
        return SkyCircularAperture(sky, p[0] * scale * A)
    if kind == 'cann':
        return SkyCircularAnnulus(sky, p[0] * scale * A, p[1] * scale * A)
    th = (p[-1] - math.pi / 2) * u.rad       # sky PA such that the pixel angle is p[-1] on the un-rotated WCS
    if kind == 'ell':
        return SkyEllipticalAperture(sky, p[0] * scale * A, p[1] * scale * A, theta=th)
    if kind == 'eann':
        return SkyEllipticalAnnulus(sky, p[0] * scale * A, p[1] * scale * A, p[2] * scale * A, b_in=p[3] * scale * A, theta=th)
    if kind == 'rect':
        return SkyRectangularAperture(sky, p[0] * scale * A, p[1] * scale * A, theta=th)
    return SkyRectangularAnnulus(sky, p[0] * scale * A, p[1] * scale * A, p[2] * scale * A, h_in=p[3] * scale * A, theta=th)


def eval_sky(case):
    from astropy.nddata import NDData
    from photutils.aperture import aperture_photometry
    fails = []
    kind, p = case['aper']
    method, sub = case['method'], case['subpixels']
    rot = case['rot']
    shape = (7, 9)
    data, errmap = make_image(shape, 'finite', case['seed'])
    mask = make_mask(shape, case['mask'], case['seed'])
    w = make_wcs(rot)
    pix = np.array([(3.0, 4.0), (1.3, 2.2), (8.4, 0.5), (40.0, -3.0)])
    sky = w.pixel_to_world(pix[:, 0], pix[:, 1])
    tag = f'sky {kind}{tuple(p)} rot={rot} {method}/{sub} mask={case["mask"]}'
    try:
        sap = make_sky_aperture(kind, p, sky)
        t_sky = aperture_photometry(data, sap, error=errmap, mask=mask, method=method, subpixels=sub, wcs=w)
        pap = sap.to_pixel(w)
        t_pix = aperture_photometry(data, pap, error=errmap, mask=mask, method=method, subpixels=sub)
        t_nd = aperture_photometry(NDData(data, wcs=w, mask=mask), sap, method=method, subpixels=sub)
    except Exception as e:  # noqa: BLE001
        return [('sky/raises', f'{type(e).__name__}: {e} [{tag}]', None)]
    if not (_same(_val(t_sky['aperture_sum']), _val(t_pix['aperture_sum'])) and
            _same(_val(t_sky['aperture_sum_err']), _val(t_pix['aperture_sum_err']))):
        fails.append(('sky/differs-from-to_pixel', f'{_val(t_sky["aperture_sum"]).tolist()} vs {_val(t_pix["aperture_sum"]).tolist()} [{tag}]', None))
    if not _same(_val(t_nd['aperture_sum']), _val(t_pix['aperture_sum'])):
        fails.append(('sky/nddata-wcs-differs-from-to_pixel', tag, None))
    if not (_same(_val(t_sky['xcenter']), np.asarray(pap.positions)[:, 0]) and 'sky_center' in t_sky.colnames):
        fails.append(('sky/table-centres', tag, None))
    if not math.isnan(float(_val(t_sky['aperture_sum'])[3])):
        fails.append(('sky/off-image-not-nan', tag, None))
    # independent pixel parameters (un-rotated WCS, smooth methods only)
    if rot == 0 and method == 'exact' and kind in ('circ', 'cann', 'ell', 'eann'):
        if not np.allclose(np.asarray(pap.positions), pix, rtol=0, atol=1e-7):
            fails.append(('sky/to_pixel-positions', f'{np.asarray(pap.positions).tolist()} [{tag}]', None))
        ref = make_aperture(kind, p, [tuple(q) for q in pix])
        masks = ref.to_mask(method='exact')
        for k in range(len(pix)):
            o = loop_oracle(data, errmap, mask, np.asarray(masks[k].data), masks[k].bbox.ixmin, masks[k].bbox.iymin)
            g = float(_val(t_sky['aperture_sum'])[k])
            ok = (math.isnan(o['sum']) and math.isnan(g)) or abs(g - o['sum']) <= 1e-6 * (o['sc_s'] + 1.0)
            if not ok:
                fails.append(('sky/sum-differs-from-independent-pixel-aperture', f'pos {k}: {g!r} vs {o["sum"]!r} [{tag}]', k))
    return fails


# ----------------------------------------------------------------------------------------------
# run / replay
# ----------------------------------------------------------------------------------------------
def run(ctx):
    th = ctx.thorough
    seed = int(ctx.seed)
    if th:
        images = [((1, 1), 'finite'), ((1, 1), 'nonfinite'), ((1, 4), 'finite'), ((2, 2), 'nonfinite'), ((3, 5), 'finite'),
                  ((3, 5), 'nonfinite'), ((5, 3), 'nonfinite'), ((7, 9), 'finite'), ((7, 9), 'nonfinite'), ((5, 3), 'int')]
        masks = ['none', 'random', 'all', 'zeros']
        apers = APER_SPECS
        methods = METHODS
    else:
        images = [((1, 1), 'nonfinite'), ((1, 4), 'finite'), ((3, 5), 'nonfinite'), ((7, 9), 'finite'), ((7, 9), 'nonfinite'),
                  ((5, 3), 'int')]
        masks = ['none', 'random', 'all']
        apers = APER_SPECS
        methods = METHODS
    nover = [0]
    combos = 0
    for ii, (shape, variant) in enumerate(images):
        for mi, mid in enumerate(masks):
            for ei, useerr in enumerate((False, True)):
                for ai, (kind, p) in enumerate(apers):
                    for qi, (method, sub) in enumerate(methods):
                        if not th:
                            # covering design: every (aperture, method) pair, every (image, mask, err) triple,
                            # and a rotating quarter of the full product
                            if (ii + mi + ei + ai + qi) % 2 != 0 and not (mid == 'random' and useerr):
                                continue
                        case = {'chk': 'combo', 'shape': list(shape), 'variant': variant, 'mask': mid, 'err': useerr,
                                'aper': [kind, list(p)], 'method': method, 'subpixels': sub, 'seed': seed,
                                'extras': th or (combos % 3 == 0)}
                        combos += 1

                        def counter(k, pos, o, case=case):
                            ctx.case(('combo', tuple(case['shape']), case['variant'], case['mask'], case['err'],
                                      case['aper'][0], tuple(case['aper'][1]), case['method'], case['subpixels'], k),
                                     nontrivial=bool(o['overlap'] and o['npos'] > 0), contract='sum/err/area-vs-pixel-loop',
                                     sample={'shape': case['shape'], 'aper': case['aper'], 'method': case['method'], 'pos': list(pos)})
                            nover[0] += bool(o['overlap'])
                        fails = eval_combo(case, counter)
                        if case['extras']:
                            ctx.case(('relational', combos), contract='batch/list/linearity/independence/callforms')
                        for key, what, k in fails:
                            ctx.check(False, key, what, case=dict(case, fkey=key, extras=True))
    # sky apertures
    nsky = 0
    for rot in (0, 30):
        for (kind, p) in SKY_SPECS:
            for (method, sub) in (METHODS if th else [('exact', 5), ('center', 5), ('subpixel', 3)]):
                for mid in (('none', 'random') if th else ('random',)):
                    case = {'chk': 'sky', 'aper': [kind, list(p)], 'method': method, 'subpixels': sub, 'rot': rot, 'mask': mid, 'seed': seed}
                    fails = eval_sky(case)
                    nsky += 1
                    ctx.case(('sky', kind, tuple(p), method, sub, rot, mid), contract='sky==to_pixel(wcs)')
                    for key, what, k in fails:
                        ctx.check(False, key, what, case=dict(case, fkey=key))
    # error maps in integer / narrow dtypes (squares must not wrap in the input dtype)
    for dt in INT_ERR_DTYPES:
        for ap in ('circ', 'rect'):
            for method in ('exact', 'center', 'subpixel'):
                case = {'chk': 'interr', 'dtype': dt, 'aper': ap, 'method': method, 'seed': seed}
                fails = eval_interr(case)
                ctx.case(('interr', dt, ap, method), contract='sum_err == sqrt(sum(w*error^2)) for every error dtype')
                for key, what, k in fails:
                    ctx.check(False, key, what, case=dict(case, fkey=key))
    ctx.note(f'{combos} (image, mask, error, aperture, method) combinations; {nover[0]} positions overlapping the image; {nsky} sky cases. '
             'Observations (not contracts of C02): aperture_photometry/do_photometry accept only ndarray masks '
             '(a nested-list mask raises AttributeError although documented array_like); do_photometry without an '
             'error map returns an error array holding one NaN per off-image position instead of an empty array.')


INT_ERR_DTYPES = ['uint8', 'uint16', 'int16', 'int32', 'uint32', 'float32', '>f8']


def eval_interr(case):
    """sum_err for integer / narrow error-map dtypes whose squares do not fit the dtype: must equal
    sqrt(sum(w * error**2)) computed in exact integer / float arithmetic over the selected pixels."""
    import numpy as np
    from photutils.aperture import CircularAperture, RectangularAperture, aperture_photometry
    dt = case['dtype']
    ny, nx = 9, 11
    rng = np.random.default_rng(case['seed'])
    base = {'uint8': 17, 'uint16': 300, 'int16': 200, 'int32': 50000, 'uint32': 70000,
            'float32': 3.5, '>f8': 2.25}[dt]
    err = (base + rng.integers(0, 5, size=(ny, nx))).astype(dt)
    data = rng.normal(5, 1, size=(ny, nx))
    mask = np.zeros((ny, nx), bool)
    mask[4, 5] = True
    pos = [(5.2, 4.1), (0.3, 0.4), (10.6, 8.2), (-30., 4.)]
    aper = CircularAperture(pos, 2.3) if case['aper'] == 'circ' else RectangularAperture(pos, 3., 4.4, 0.3)
    method = case['method']
    fails = []
    tbl = aperture_photometry(data, aper, error=err, mask=mask, method=method, subpixels=3)
    _, errs = aper.do_photometry(data, error=err, mask=mask, method=method, subpixels=3)
    masks = aper.to_mask(method=method, subpixels=3)
    for k, (m, p_) in enumerate(zip(masks, pos)):
        img = m.to_image((ny, nx))
        if img is None:
            exp = np.nan
        else:
            tot = 0.0
            for y in range(ny):
                for x in range(nx):
                    w = float(img[y, x])
                    if w > 0 and not mask[y, x]:
                        e = float(err[y, x])      # python float: no wrap-around
                        tot += w * e * e
            exp = tot ** 0.5
        for name, got in (('aperture_photometry', float(tbl['aperture_sum_err'][k])),
                          ('do_photometry', float(np.asarray(errs)[k]))):
            ok = (np.isnan(exp) and np.isnan(got)) or (np.isfinite(got) and abs(got - exp) <= 1e-6 * max(1.0, abs(exp)))
            if not ok:
                fails.append(('sum_err/integer-or-narrow-error-dtype',
                              f'{name} error dtype {dt}, {case["aper"]} {method} at {p_}: sum_err={got!r}, '
                              f'expected sqrt(sum(w*error^2))={exp!r}', k))
    return fails


def replay(case):
    try:
        if case.get('chk') == 'interr':
            fails = eval_interr(case)
        elif case.get('chk') == 'sky':
            fails = eval_sky(case)
        else:
            fails = eval_combo(dict(case, extras=True))
    except Exception as e:  # noqa: BLE001
        return ('error', f'{type(e).__name__}: {e}', None)
    want = case.get('fkey')
    hit = [f for f in fails if want is None or f[0] == want]
    if hit:
        return ('confirmed', hit[0][1], {'failures': [[f[0], f[1]] for f in fails][:20]})
    return ('spurious', 'contract holds on replay', {'failures': [[f[0], f[1]] for f in fails][:20]})
