"""C20 - isophote fitting recovers the geometry of elliptical light distributions (bounded rtc driver).

Part 1: EllipseGeometry.to_polar scalar form == array form pointwise, and both == atan2/hypot oracle.
Part 2: Ellipse.fit_image on analytically rendered, noise-free elliptical images: ordering / range of the
        list, recovery of centre / eps / pa / intensity on well-sampled isophotes, fix_* flags exact,
        build_ellipse_model reproduces the image inside the fitted region, image untouched.
"""
import math

import numpy as np

BOUNDS = (
    "to_polar: pa on the 15-degree lattice in [-180, 180] deg plus +-1e-12 rad around every lattice value, centres "
    "(0,0), (10.3,-4.6), (5.5,5.5), points = centre + offsets {-3,-1,-0.5,0,0.5,1,2.5}^2 (axes, diagonals, the centre "
    "itself) and points on rays every 15 deg (+-1e-12) at radii {0.7, 4}; inputs as python float/int (scalar form) "
    "and as 1-D / 2-D float arrays (array form); tolerances: radius rel 1e-14, angle circular difference 1e-12 "
    "between the two forms, 1e-7 against atan2 (asin conditioning near 90 deg). fit_image: noise-free images 81x95 "
    "(quick) / also 101x91 (thorough), I(r) = 1000 exp(-r^2 / 2 s^2) with s = 14 ('gauss') or 1000 exp(-b((r/15)^(1/n) "
    "- 1)), n = 1.5 ('sersic'), r the elliptical radius; eps in {0.1,0.3,0.6} (thorough also 0.05, 0.8), pa on the "
    "15-degree lattice in [0,180], centre off-integer drawn within +-3 px of the frame centre; initial geometry "
    "perturbed within 10 % (centre <= 1 px = 10 % of sma0 = 10, eps x(1+-0.1), pa +-0.1 rad); minsma 3 (one case 0), "
    "maxsma 30..36, step 0.1 (thorough also linear step 2 and integrmode mean/median); quick: 8 free fits + 2 free fits on 70x140 / 140x70 frames (centre at x0 ~ 101 > ny resp. y0 ~ 101 > nx, so the fitted ellipses reach beyond min(shape) along the long axis) + 4 "
    "fix_* fits, thorough: 36 + 10.  Well-sampled isophote: stop_code 0, sma >= 5, sma (1 - eps) >= 4, ellipse at "
    "least 3 px inside the frame.  Tolerances on those: centre 3 sigma + 0.03 px (0.06 for the sector integration modes), eps 3 sigma + 0.01, pa (mod pi) "
    "3 sigma + 0.02 rad, intensity 3 sigma + 1 % (bilinear sampling bias of the curved profile; 3 % for eps = 0.8 where the profile across the minor axis is only 2.8 px wide; x3 for the sector-averaging modes mean/median); all three fix_* flags together are excluded (documented: 'Everything is fixed. Fit not possible.' -> empty list); fixed parameters "
    "exact (==; pa within 1e-12: the fitter's pa +- pi/2 round trip when eps crosses zero costs 1 ulp), sma0 = 20 for eps = 0.8 (initial semi-minor axis >= 3 px: basin of convergence); model within 2 % for pixels with elliptical radius in [max(6, 7/(1-eps)), 0.8 max sma].")

RULE = (
    "to_polar cases are keyed by (pa, centre, point, form) and are non-trivial when the point is not the centre; "
    "the lattice ignores the seed. Fit cases are keyed by (law, eps, pa, centre, perturbation, options); the "
    "parameter lattice is fixed, centres and perturbations are drawn from ctx.rng; a fit case is non-trivial when "
    "at least 3 well-sampled converged isophotes were returned.")

TWO_PI = 2.0 * math.pi


# ---------------------------------------------------------------------------------------------
# to_polar
# ---------------------------------------------------------------------------------------------

def _circ(a, b):
    d = abs(a - b) % TWO_PI
    return min(d, TWO_PI - d)


def _polar_points(x0, y0):
    offs = [-3.0, -1.0, -0.5, 0.0, 0.5, 1.0, 2.5]
    pts = [(x0 + dx, y0 + dy) for dy in offs for dx in offs]
    for k in range(24):
        for d in (-1e-12, 0.0, 1e-12):
            a = math.radians(15.0 * k) + d
            for rad in (0.7, 4.0):
                pts.append((x0 + rad * math.cos(a), y0 + rad * math.sin(a)))
    return pts


def eval_to_polar(pa, x0, y0):
    """Returns list of violations (key, what, point) for one geometry."""
    from photutils.isophote import EllipseGeometry
    g = EllipseGeometry(x0, y0, 10.0, 0.3, pa)
    pts = _polar_points(x0, y0)
    xs = np.array([p[0] for p in pts])
    ys = np.array([p[1] for p in pts])
    bad = []
    ra, aa = g.to_polar(xs, ys)                      # 1-D array form
    ra, aa = np.asarray(ra).ravel(), np.asarray(aa).ravel()
    n2 = (len(pts) // 3) * 3
    r2, a2 = g.to_polar(xs[:n2].reshape(3, -1), ys[:n2].reshape(3, -1))   # 2-D array form
    r2, a2 = np.asarray(r2).ravel(), np.asarray(a2).ravel()
    if ra.shape != xs.shape:
        bad.append(('to_polar/array-shape', f'array form returned {ra.shape} values for {xs.shape} points', None))
        return bad, 0
    pa1 = pa + TWO_PI if pa < 0 else pa
    for k, (x, y) in enumerate(pts):
        rs, as_ = g.to_polar(float(x), float(y))     # scalar form
        if not (abs(rs - ra[k]) <= 1e-14 * max(1.0, abs(rs)) and _circ(as_, aa[k]) <= 1e-12):
            bad.append(('to_polar/scalar-vs-array', f'scalar ({rs},{as_}) != array ({ra[k]},{aa[k]})', (x, y)))
        if k < n2 and not (abs(r2[k] - ra[k]) <= 1e-14 * max(1.0, abs(rs)) and _circ(a2[k], aa[k]) <= 1e-12):
            bad.append(('to_polar/1d-vs-2d-array', f'2-D array form ({r2[k]},{a2[k]}) != 1-D ({ra[k]},{aa[k]})', (x, y)))
        x1, y1 = x - x0, y - y0
        rr = math.hypot(x1, y1)
        if rr > 0:
            want = (math.atan2(y1, x1) - pa1) % TWO_PI
            for form, r_, a_ in (('scalar', rs, as_), ('array', ra[k], aa[k])):
                if not (abs(r_ - rr) <= 1e-13 * max(1.0, rr) and _circ(a_, want) <= 1e-7):
                    bad.append((f'to_polar/{form}-vs-atan2', f'{form} form ({r_},{a_}) but hypot/atan2-pa give '
                                f'({rr},{want})', (x, y)))
                if not (0.0 <= a_ <= TWO_PI):
                    bad.append((f'to_polar/{form}-angle-range', f'angle {a_} outside [0, 2pi]', (x, y)))
        if float(x).is_integer() and float(y).is_integer():
            ri, ai = g.to_polar(int(x), int(y))      # python ints take the scalar branch
            if not (abs(ri - rs) <= 1e-14 * max(1.0, abs(rs)) and _circ(ai, as_) <= 1e-12):
                bad.append(('to_polar/int-vs-float', f'int input ({ri},{ai}) != float input ({rs},{as_})', (x, y)))
    return bad, len(pts)


def run_to_polar(ctx):
    pas = []
    for k in range(-12, 13):
        base = math.radians(15.0 * k)
        for d in (-1e-12, 0.0, 1e-12):
            p = base + d
            if -math.pi <= p <= math.pi:
                pas.append(p)
    for pa in pas:
        for (x0, y0) in [(0.0, 0.0), (10.3, -4.6), (5.5, 5.5)]:
            bad, n = eval_to_polar(pa, x0, y0)
            for k in range(n):
                ctx.case(('to_polar', pa, x0, y0, k), nontrivial=True, contract='to_polar scalar==array==atan2')
            seen = set()
            for key, what, pt in bad:
                if key in seen:
                    continue
                seen.add(key)
                ctx.check(False, key=key, what=f'{what} at point {pt}, pa {pa}, centre ({x0},{y0})',
                          case={'kind': 'to_polar', 'pa': pa, 'x0': x0, 'y0': y0})


# ---------------------------------------------------------------------------------------------
# fit_image
# ---------------------------------------------------------------------------------------------

def profile(law):
    if law == 'gauss':
        return lambda a: 1000.0 * np.exp(-0.5 * (np.asarray(a, dtype=float) / 14.0) ** 2)
    n = 1.5
    b = 2 * n - 1.0 / 3.0
    return lambda a: 1000.0 * np.exp(-b * ((np.asarray(a, dtype=float) / 15.0) ** (1.0 / n) - 1.0))


def render(shape, x0, y0, eps, pa, law):
    """Image whose isophotes are concentric ellipses (x0, y0, eps, pa): I(elliptical radius)."""
    yy, xx = np.mgrid[0:shape[0], 0:shape[1]].astype(float)
    dx, dy = xx - x0, yy - y0
    xr = dx * math.cos(pa) + dy * math.sin(pa)           # along the major axis (pa ccw from +x)
    yr = -dx * math.sin(pa) + dy * math.cos(pa)
    r = np.sqrt(xr ** 2 + (yr / (1.0 - eps)) ** 2)
    return profile(law)(r), r


def _err(a):
    a = np.asarray(a, dtype=float)
    return np.where(np.isfinite(a), np.abs(a), 0.0)


def eval_fit(case):
    """One fit_image case. Returns (violations, info)."""
    from photutils.isophote import Ellipse, EllipseGeometry, build_ellipse_model
    shape = tuple(case['shape'])
    x0, y0, eps, pa, law = case['x0'], case['y0'], case['eps'], case['pa'], case['law']
    img, r = render(shape, x0, y0, eps, pa, law)
    img0 = img.copy()
    ix, iy, ie, ip, isma = case['init']
    opts = dict(case['opts'])
    minsma, maxsma = opts['minsma'], opts['maxsma']
    bad = []
    info = {}

    def fail(key, what):
        bad.append((key, what))
    geom = EllipseGeometry(ix, iy, isma, ie, ip)          # fresh geometry for every fit (F22 is C09's business)
    try:
        iso = Ellipse(img, geom).fit_image(sma0=isma, **opts)
    except Exception as exc:  # noqa: BLE001
        fail('fit_image/raises', f'fit_image raised {type(exc).__name__}: {exc}')
        return bad, info
    if not np.array_equal(img, img0):
        fail('fit_image/image-modified', 'fit_image modified the input image')
    n = len(iso)
    info['n_iso'] = n
    if n == 0:
        fail('fit_image/empty', 'no isophote returned for a well-posed noise-free image')
        return bad, info
    sma = np.asarray(iso.sma, dtype=float)
    if not np.all(np.diff(sma) > 0):
        fail('fit_image/sma-not-strictly-increasing', f'sma list {np.round(sma, 3).tolist()}')
    if sma[0] < minsma - 1e-12 or sma[-1] > maxsma + 1e-12:
        fail('fit_image/sma-outside-range', f'sma range [{sma[0]}, {sma[-1]}] not within [{minsma}, {maxsma}]')
    if (sma[0] == 0.0) != (minsma == 0.0):
        fail('fit_image/central-isophote', f'sma = 0 isophote present {sma[0] == 0.0} but minsma = {minsma}')
    if not np.all(np.asarray(iso.valid)[sma > 0] if hasattr(iso, 'valid') else True):
        fail('fit_image/invalid-isophote', 'list contains an isophote with valid == False')
    if not (sma[0] <= isma * 1.0001 and sma[-1] >= min(isma, maxsma) * 0.9):
        fail('fit_image/sma0-not-covered', f'sma0 = {isma} not inside the returned range [{sma[0]}, {sma[-1]}]')

    xs, ys = np.asarray(iso.x0, float), np.asarray(iso.y0, float)
    es, ps = np.asarray(iso.eps, float), np.asarray(iso.pa, float)
    ints = np.asarray(iso.intens, float)
    stop = np.asarray(iso.stop_code)
    fixc, fixp, fixe = opts.get('fix_center', False), opts.get('fix_pa', False), opts.get('fix_eps', False)
    nz = sma > 0
    # pa: equal up to the round trip pa -> pa +- pi/2 -> pa the fitter performs when eps crosses zero (1 ulp)
    if fixc and not (np.all(xs[nz] == ix) and np.all(ys[nz] == iy)):
        fail('fit_image/fix_center-not-honoured', f'x0 in {sorted(set(xs.tolist()))[:4]} y0 in '
             f'{sorted(set(ys.tolist()))[:4]}, requested fixed ({ix},{iy})')
    if fixp and not np.all(np.abs(ps[nz] - ip) <= 1e-12):
        dev = np.abs(ps[nz] - ip)
        off = dev > 1e-12
        quarter = np.all(np.abs(dev[off] - math.pi / 2) <= 1e-9)
        fail('fit_image/fix_pa-flipped-by-eps-sign-crossing' if quarter else 'fit_image/fix_pa-not-honoured',
             f'fix_pa=True, requested pa {ip}: isophotes at sma {np.round(sma[nz][off], 2).tolist()[:5]} have pa '
             f'{ps[nz][off].tolist()[:3]}' + (' = requested + pi/2 (eps crossed zero in the fitter)' if quarter else ''))
    if fixe and not np.all(es[nz] == ie):
        fail('fit_image/fix_eps-not-honoured', f'eps values {sorted(set(es.tolist()))[:4]}, requested fixed {ie}')

    # well-sampled isophotes
    edge = min(x0, y0, shape[1] - 1 - x0, shape[0] - 1 - y0)
    well = (stop == 0) & (sma >= 5.0) & (sma * (1.0 - eps) >= 4.0) & (sma + 3.0 <= edge)
    info['n_well'] = int(well.sum())
    free = not (fixc or fixp or fixe)
    if free:
        cand = (sma >= 5.0) & (sma * (1.0 - eps) >= 4.0) & (sma + 3.0 <= edge)
        info['n_candidates'] = int(cand.sum())
        if cand.sum() >= 4 and info['n_well'] < 0.5 * cand.sum():
            fail('fit_image/too-few-converged', f'only {info["n_well"]} of {int(cand.sum())} well-sampled isophotes '
                 f'converged (stop codes {sorted(set(stop.tolist()))})')
        truth_i = profile(law)(sma)
        dpa = np.abs(((ps - pa + math.pi / 2) % math.pi) - math.pi / 2)
        loose = 1.0 if opts.get('integrmode', 'bilinear') == 'bilinear' else 2.0   # sector modes: coarser centre
        checks = [
            ('x0', np.abs(xs - x0), 3 * _err(iso.x0_err) + 0.03 * loose),
            ('y0', np.abs(ys - y0), 3 * _err(iso.y0_err) + 0.03 * loose),
            ('eps', np.abs(es - eps), 3 * _err(iso.ellip_err) + 0.01),
            ('pa', dpa, 3 * _err(iso.pa_err) + 0.02),
            ('intens', np.abs(ints - truth_i), 3 * _err(iso.int_err) + (0.01 if eps < 0.7 else 0.03) * (1.0 if loose == 1.0 else 3.0) * truth_i),
        ]
        for name, dev, tol in checks:
            if well.any():
                info['margin_' + name] = round(float(np.max((dev / tol)[well])), 3)
            viol = well & ~(dev <= tol)
            if viol.any():
                k = int(np.nonzero(viol)[0][0])
                fail(f'fit_image/recovery-{name}', f'{name} off by {dev[k]:.4g} (tolerance {tol[k]:.4g}) at sma '
                     f'{sma[k]:.2f}; truth centre ({x0},{y0}) eps {eps} pa {pa:.4f} law {law}')
        # model
        if case.get('model', True) and n >= 6:
            try:
                model = build_ellipse_model(shape, iso)
            except Exception as exc:  # noqa: BLE001
                fail('build_ellipse_model/raises', f'{type(exc).__name__}: {exc}')
                model = None
            if model is not None:
                if not np.array_equal(img, img0):
                    fail('build_ellipse_model/image-modified', 'image modified')
                rlo, rhi = max(6.0, 7.0 / (1.0 - eps), sma[0] + 1.0), 0.8 * sma[-1]
                ins = (r >= rlo) & (r <= rhi)
                info['n_model_pix'] = int(ins.sum())
                if ins.any():
                    rel = np.abs(model / img - 1.0)[ins]
                    info['model_maxrel'] = float(rel.max())
                    empty = float(np.mean(model[ins] == 0.0))
                    if empty > 0.01:
                        fail('build_ellipse_model/fitted-region-not-covered',
                             f'{100 * empty:.0f} % of the pixels inside the fitted region (elliptical radius '
                             f'[{rlo:.1f},{rhi:.1f}]) got no model value on a {shape[0]}x{shape[1]} (ny x nx) frame, '
                             f'centre ({x0:.1f},{y0:.1f}): in-frame test with swapped axes / dropped isophotes?')
                    elif not rel.max() <= 0.02:
                        jump = float(np.abs(np.diff(ps[nz])).max()) if nz.sum() > 1 else 0.0
                        if jump > math.pi / 2:
                            fail('build_ellipse_model/pa-wrap-interpolation',
                                 f'model off by {rel.max():.3g} inside the fitted region: the fitted pa list flips '
                                 f'between ~0 and ~pi (jump {jump:.2f} rad, same ellipse) and the model interpolates '
                                 f'pa across the flip; truth pa {pa:.4f} eps {eps} law {law}')
                        else:
                            fail('build_ellipse_model/reproduces-image',
                                 f'model off by {rel.max():.3g} (> 2 %) for elliptical radius in [{rlo:.1f},{rhi:.1f}]; '
                                 f'truth centre ({x0},{y0}) eps {eps} pa {pa:.4f} law {law}')
    return bad, info


def _fit_cases(ctx):
    rng = ctx.rng
    quick = [(0.1, 30, 'gauss'), (0.3, 45, 'sersic'), (0.6, 90, 'gauss'), (0.3, 135, 'gauss'),
             (0.6, 165, 'sersic'), (0.3, 0, 'sersic'), (0.1, 105, 'sersic'), (0.6, 180, 'gauss')]
    lattice = list(quick)
    if ctx.thorough:
        k = 0
        for eps in (0.05, 0.1, 0.3, 0.6, 0.8):
            for padeg in (15, 60, 75, 90, 120, 150, 0):
                k += 1
                if len(lattice) < 36 and (k % 5 != 0 or padeg == 0):
                    lattice.append((eps, padeg, 'gauss' if k % 2 else 'sersic'))
    out = []
    for j, (eps, padeg, law) in enumerate(lattice):
        shape = [81, 95] if (not ctx.thorough or j % 2 == 0) else [101, 91]
        x0 = (shape[1] - 1) / 2 + float(rng.uniform(-3, 3))
        y0 = (shape[0] - 1) / 2 + float(rng.uniform(-3, 3))
        pa = math.radians(padeg)
        ang = float(rng.uniform(0, TWO_PI))
        off = float(rng.uniform(0.3, 1.0))
        init = [x0 + off * math.cos(ang), y0 + off * math.sin(ang),
                min(max(eps * (1 + float(rng.uniform(-0.1, 0.1))), 0.05), 0.9),
                pa + float(rng.uniform(-0.1, 0.1)), 10.0 if eps < 0.7 else 20.0]
        opts = {'minsma': 3.0, 'maxsma': float(30 + 2 * (j % 4)), 'step': 0.1}
        if j == 3:
            opts['minsma'] = 0.0
        if ctx.thorough and j >= 8:
            if j % 6 == 0:
                opts.update(linear=True, step=2.0)
            elif j % 6 == 1:
                opts.update(integrmode='mean')
            elif j % 6 == 2:
                opts.update(integrmode='median')
        case = {'kind': 'fit', 'shape': shape, 'x0': x0, 'y0': y0, 'eps': eps, 'pa': pa, 'law': law,
                'init': init, 'opts': opts, 'model': opts.get('integrmode', 'bilinear') == 'bilinear'}
        out.append(case)
    # strongly non-square frames, wide and tall, centre towards the far end of the long axis (x0 > ny resp.
    # y0 > nx): the fitted ellipses extend beyond min(shape) along the long axis
    for shape, cx, cy, padeg in ([70, 140], 101.0, 35.0, 20), ([140, 70], 35.0, 101.0, 110):
        x0, y0 = cx + float(rng.uniform(-2, 2)), cy + float(rng.uniform(-1, 1))
        pa = math.radians(padeg)
        init = [x0 + float(rng.uniform(-0.7, 0.7)), y0 + float(rng.uniform(-0.7, 0.7)),
                0.3 * (1 + float(rng.uniform(-0.1, 0.1))), pa + float(rng.uniform(-0.1, 0.1)), 10.0]
        out.append({'kind': 'fit', 'shape': shape, 'x0': x0, 'y0': y0, 'eps': 0.3, 'pa': pa, 'law': 'gauss',
                    'init': init, 'opts': {'minsma': 3.0, 'maxsma': 30.0, 'step': 0.1}, 'model': True})
    # the sector-area integration modes in every tier, out to radii where a sector holds several
    # pixels (inner isophotes fall back to bilinear sampling)
    for mode_, padeg in (('mean', 40), ('median', 125)):
        x0, y0, pa = 63.3, 58.7, math.radians(padeg)
        out.append({'kind': 'fit', 'shape': [121, 131], 'x0': x0, 'y0': y0, 'eps': 0.3, 'pa': pa, 'law': 'gauss',
                    'init': [x0 + 0.4, y0 - 0.3, 0.32, pa + 0.05, 20.0],
                    'opts': {'minsma': 15.0, 'maxsma': 45.0, 'step': 0.15, 'integrmode': mode_}, 'model': False})
    # fix_* fits
    fixes = [{'fix_center': True}, {'fix_pa': True}, {'fix_eps': True},
             # the outward pass ends in non-iterative extraction (sma > maxrit): the inward pass
             # starts from the last outward isophote and must still honour the request
             {'fix_center': True, 'maxrit': 14.0}, {'fix_pa': True, 'maxrit': 12.0}]
    if ctx.thorough:
        fixes += [{'fix_center': True, 'fix_pa': True}, {'fix_pa': True, 'fix_eps': True},
                  {'fix_center': True, 'fix_eps': True}, {'fix_eps': True, 'linear': True, 'step': 2.0},
                  {'fix_center': True, 'linear': True, 'step': 2.0}, {'fix_pa': True, 'minsma': 0.0},
                  {'fix_eps': True, 'maxrit': 16.0}, {'fix_center': True, 'fix_pa': True, 'maxrit': 10.0}]
    # deterministic case: nearly round galaxy, fix_pa down to the centre (eps crosses zero at sub-pixel sma)
    pa75 = math.radians(75)
    out.append({'kind': 'fit', 'shape': [81, 95], 'x0': 47.6, 'y0': 39.9, 'eps': 0.1, 'pa': pa75, 'law': 'gauss',
                'init': [48.05, 39.5, 0.108, pa75 - 0.007, 10.0],
                'opts': {'minsma': 0.0, 'maxsma': 30.0, 'step': 0.15, 'fix_pa': True}, 'model': False})
    # the range clause with a non-zero minsma that the inward pass steps over (linear growth) or that
    # lies below the half-pixel floor: no isophote below minsma, in particular no central one
    for opts in ({'minsma': 1.5, 'maxsma': 30.0, 'step': 2.0, 'linear': True},
                 {'minsma': 0.3, 'maxsma': 25.0, 'step': 0.2},
                 {'minsma': 2.5, 'maxsma': 30.0, 'step': 3.0, 'linear': True}):
        pa = math.radians(40)
        out.append({'kind': 'fit', 'shape': [81, 95], 'x0': 47.3, 'y0': 40.4, 'eps': 0.3, 'pa': pa, 'law': 'gauss',
                    'init': [47.6, 40.1, 0.31, pa + 0.03, 10.0], 'opts': dict(opts), 'model': False})
    for j, fx in enumerate(fixes):
        eps, padeg, law = [(0.3, 40, 'gauss'), (0.6, 110, 'sersic'), (0.1, 75, 'gauss')][j % 3]
        shape = [81, 95]
        x0 = 47.0 + float(rng.uniform(-3, 3))
        y0 = 40.0 + float(rng.uniform(-3, 3))
        pa = math.radians(padeg)
        init = [x0 + float(rng.uniform(-0.7, 0.7)), y0 + float(rng.uniform(-0.7, 0.7)),
                eps * (1 + float(rng.uniform(-0.1, 0.1))), pa + float(rng.uniform(-0.1, 0.1)), 10.0]
        opts = {'minsma': 3.0, 'maxsma': 30.0, 'step': 0.15}
        opts.update(fx)
        out.append({'kind': 'fit', 'shape': shape, 'x0': x0, 'y0': y0, 'eps': eps, 'pa': pa, 'law': law,
                    'init': init, 'opts': opts, 'model': False})
    return out


def run_fits(ctx):
    for case in _fit_cases(ctx):
        bad, info = eval_fit(case)
        free = not any(case['opts'].get(k) for k in ('fix_center', 'fix_pa', 'fix_eps'))
        ctx.case(('fit', case['law'], case['eps'], round(case['pa'], 6), round(case['x0'], 6), round(case['y0'], 6),
                  tuple(round(v, 6) for v in case['init']), tuple(sorted(case['opts'].items()))),
                 nontrivial=(info.get('n_well', 0) >= 3) if free else info.get('n_iso', 0) > 0,
                 contract='fit_image: order/range/recovery/model/untouched' if free else 'fit_image: fix_* exact',
                 sample={'law': case['law'], 'eps': case['eps'], 'pa_deg': round(math.degrees(case['pa']), 1),
                         'opts': case['opts'], **info})
        seen = set()
        for key, what in bad:
            if key in seen:
                continue
            seen.add(key)
            ctx.check(False, key=key, what=what + f" | opts {case['opts']} init {[round(v, 3) for v in case['init']]}",
                      case=case)


def run(ctx):
    run_to_polar(ctx)
    run_fits(ctx)


def replay(case):
    try:
        if case['kind'] == 'to_polar':
            bad, _n = eval_to_polar(case['pa'], case['x0'], case['y0'])
            return ('confirmed' if bad else 'spurious'), '; '.join(f'{k}: {w}' for k, w, _p in bad[:5]), {}
        if case['kind'] == 'fit':
            bad, info = eval_fit(case)
            return ('confirmed' if bad else 'spurious'), '; '.join(f'{k}: {w}' for k, w in bad), info
    except Exception as exc:  # noqa: BLE001
        return 'error', f'{type(exc).__name__}: {exc}', {}
    return 'error', 'unknown case kind', {}
