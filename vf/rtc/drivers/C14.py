"""C14 - peak and star finders return exactly the sources their contract selects (bounded rtc driver).

Part 1: find_peaks against a direct definition oracle (explicit pixel loops).
Part 2: DAOStarFinder / IRAFStarFinder / StarFinder on seeded star fields against independent
        oracles (own kernel, own zero-padded convolution, own peak definition, moments by
        definition) and relational contracts (xycoords, brightest, inclusive bounds, Quantity).
"""
import itertools
import math

import numpy as np

BOUNDS = (
    "find_peaks: images of shape h x w, 1 <= h, w <= 9, pixel values in {-3..3} u {NaN} (integers stored as "
    "float64, so every comparison in the code path is exact); exhaustive sub-enumerations: all 2x3 and 3x2 images "
    "over {-2,-1,1,NaN} (quick) and additionally all 3x3 images over {-2,0,1} (thorough); lattice/seeded images "
    "(random, plateaus, all-negative, border sources, NaN blocks, all-NaN) crossed with thresholds (scalar in "
    "{-4,-3,-1.5,-1,0,1,2,3}; 2-D integer arrays in [-4,3]), box_size in {1,3,5,7,(3,5),(5,3),(1,3),(3,1),2,4,(2,3)}, "
    "explicit footprints (cross, 3x5, 5x3, 1x3, asymmetric, centre-less ring, even-sized), border_width in "
    "{None,0,1,2,3,(0,1),(1,0),(2,1),(1,3),(0,4),shape}, masks (none/random/all/peaks), npeaks in {inf,1,2,3,N,N+1}, "
    "a deterministic centroid_func with and without error array, Quantity data. Constant images are excluded "
    "(documented: warning + None). Star finders: seeded scenes 41x53 / 37x45 (non-square) of 8-14 Gaussian "
    "sources (round, elongated, hot pixel, broad blob, saturated plateau, close pair, border and corner sources, "
    "negative hole) plus N(0,0.02) noise; DAO fwhm in {2,3,4.2} ratio in {1,0.6} theta in {0,30,90,135}; IRAF fwhm "
    "in {2,3}; StarFinder kernels 5x5, 7x5 (asymmetric), 7x7; min_separation in {default,0,0.5,1,2,2.5,3.7,5}; "
    "exclude_border both; bounds sharplo/sharphi/roundlo/roundhi/peakmax placed exactly on reported values "
    "(inclusive test) and between them; brightest in {1,2,3,N,N+5}; xycoords integer (peaks, arbitrary, edge and "
    "corner pixels) and fractional offsets in {+-0.1,+-0.3,+-0.49,0.4} (exact .5 excluded: rounding convention "
    "not fixed by the property); masks. Float tolerances: own convolution vs the code's 1e-9*scale (cases with a "
    "peak/threshold decision closer than that are skipped as ambiguous); recomputed row attributes rtol 1e-7 "
    "atol 1e-9; relational contracts (xycoords/brightest/units/fractional) exact to 1e-12.")

RULE = (
    "find_peaks cases are keyed by (image bytes, threshold, window, border, mask, npeaks, centroid) and are "
    "non-trivial when the oracle peak set is non-empty or the image has >= 2 distinct values; exhaustive blocks "
    "ignore the seed, lattice blocks draw parameters with ctx.rng. Star-finder cases are keyed by (finder, scene "
    "seed, configuration, variant); non-trivial when the oracle finds at least one peak.")

_NAN = float('nan')


# ---------------------------------------------------------------------------------------------
# Part 1: find_peaks definition oracle
# ---------------------------------------------------------------------------------------------

def _fp_offsets(fp):
    """Offsets (dy, dx) of the True cells of a footprint; centre = size // 2 (also for even sizes)."""
    fp = np.asarray(fp).astype(bool)
    cy, cx = fp.shape[0] // 2, fp.shape[1] // 2
    return [(j - cy, i - cx) for j in range(fp.shape[0]) for i in range(fp.shape[1]) if fp[j, i]]


def _border_pair(bw):
    if bw is None:
        return 0, 0
    if np.isscalar(bw):
        return int(bw), int(bw)
    return int(bw[0]), int(bw[1])


def oracle_peaks(data, thr, offsets, mask=None, border=None):
    """Definition: unmasked, non-border pixels p with d(p) > thr(p) and d(p) == max over the in-image,
    non-NaN footprint neighbours.  Returns (peaks, undetermined, nanpix): lists of (y, x).
    `undetermined`: pixels whose in-image non-NaN neighbourhood is empty (only possible for footprints
    without centre) - the definition does not decide them."""
    h, w = data.shape
    by, bx = _border_pair(border)
    thr2 = np.broadcast_to(np.asarray(thr, dtype=float), data.shape)
    peaks, undet = [], []
    for y in range(h):
        for x in range(w):
            v = data[y, x]
            if v != v:
                continue
            if mask is not None and mask[y, x]:
                continue
            if y < by or y >= h - by or x < bx or x >= w - bx:
                continue
            if not v > thr2[y, x]:
                continue
            m = None
            for dy, dx in offsets:
                yy, xx = y + dy, x + dx
                if 0 <= yy < h and 0 <= xx < w:
                    u = data[yy, xx]
                    if u == u and (m is None or u > m):
                        m = u
            if m is None:
                undet.append((y, x))
            elif v == m:
                peaks.append((y, x))
    return peaks, undet


def _cf(data, mask=None, error=None):
    """Deterministic centroid function: centre of mass of (data - min + 1) [/ error] over unmasked pixels."""
    d = np.asarray(data, dtype=float)
    wgt = d - np.min(d) + 1.0
    if error is not None:
        wgt = wgt / np.asarray(error, dtype=float)
    if mask is not None:
        wgt = np.where(mask, 0.0, wgt)
    yy, xx = np.mgrid[0:d.shape[0], 0:d.shape[1]]
    s = wgt.sum()
    return (wgt * xx).sum() / s, (wgt * yy).sum() / s


def oracle_centroid(data, fp, y, x, mask=None, error=None):
    """Expected centroid: _cf applied to the in-image part of the footprint-shaped window centred on (y, x),
    footprint-False and masked pixels masked, error window passed along; window origin added back."""
    fp = np.asarray(fp).astype(bool)
    fy, fx = fp.shape
    y0, x0 = y - fy // 2, x - fx // 2           # odd shapes only
    ya, yb = max(y0, 0), min(y0 + fy, data.shape[0])
    xa, xb = max(x0, 0), min(x0 + fx, data.shape[1])
    cut = data[ya:yb, xa:xb]
    m = ~fp[ya - y0:yb - y0, xa - x0:xb - x0]
    if mask is not None:
        m = m | mask[ya:yb, xa:xb]
    e = None if error is None else error[ya:yb, xa:xb]
    cx, cy = _cf(cut, mask=m, error=e)
    return cx + xa, cy + ya


FOOTPRINTS = {
    'cross3': [[0, 1, 0], [1, 1, 1], [0, 1, 0]],
    'ones3x5': np.ones((3, 5), int).tolist(),
    'ones5x3': np.ones((5, 3), int).tolist(),
    'row1x3': [[1, 1, 1]],
    'col3x1': [[1], [1], [1]],
    'asym3': [[1, 1, 0], [0, 1, 0], [0, 0, 0]],
    'asym3x5': [[1, 0, 0, 0, 0], [0, 0, 1, 0, 1], [0, 0, 0, 0, 0]],
    'ring3': [[1, 1, 1], [1, 0, 1], [1, 1, 1]],
    'even2x2': [[1, 1], [1, 1]],
    'even2x4': [[1, 0, 1, 1], [0, 1, 1, 0]],
    'disc5': [[0, 0, 1, 0, 0], [0, 1, 1, 1, 0], [1, 1, 1, 1, 1], [0, 1, 1, 1, 0], [0, 0, 1, 0, 0]],
}
BOXES = [1, 3, 5, 7, (3, 5), (5, 3), (1, 3), (3, 1), 2, 4, (2, 3)]
BORDERS = [None, 0, 1, 2, 3, (0, 1), (1, 0), (2, 1), (1, 3), (0, 4), 'shape']
THRESH = [-4, -3, -1.5, -1, 0, 1, 2, 3]


def _window(spec):
    """spec = ('box', size) or ('fp', name) -> (kwargs for find_peaks, footprint array for the oracle)."""
    kind, val = spec
    if kind == 'box':
        shape = (val, val) if np.isscalar(val) else tuple(val)
        return {'box_size': val}, np.ones(shape, bool)
    fp = np.array(FOOTPRINTS[val], dtype=bool)
    return {'footprint': fp}, fp


def _jsonable_img(a):
    return [[None if v != v else float(v) for v in row] for row in np.asarray(a, dtype=float)]


def _img_from_json(rows):
    return np.array([[_NAN if v is None else v for v in row] for row in rows], dtype=float)


def _fp_case(data, thr, win, border, mask, npeaks, centroid, error, unit=False):
    return {'kind': 'find_peaks', 'data': _jsonable_img(data),
            'thr': thr if np.isscalar(thr) else np.asarray(thr).tolist(),
            'win': [win[0], list(win[1]) if isinstance(win[1], tuple) else win[1]],
            'border': list(border) if isinstance(border, tuple) else border,
            'mask': None if mask is None else np.asarray(mask).astype(int).tolist(),
            'npeaks': None if npeaks is None else int(npeaks), 'centroid': bool(centroid),
            'error': None if error is None else np.asarray(error).tolist(), 'unit': bool(unit)}


def eval_find_peaks(case):
    """Run find_peaks on one case and compare with the oracle.  Returns list of (key, what) violations
    and an info dict."""
    import astropy.units as u
    from photutils.detection import find_peaks

    data = _img_from_json(case['data'])
    thr = case['thr'] if np.isscalar(case['thr']) else np.array(case['thr'], dtype=float)
    wk, wv = case['win']
    win = (wk, tuple(wv) if isinstance(wv, list) else wv)
    kwargs, fp = _window(win)
    border = case['border']
    if border == 'shape':
        border = tuple(data.shape)
    elif isinstance(border, list):
        border = tuple(border)
    mask = None if case['mask'] is None else np.array(case['mask'], dtype=bool)
    npeaks = case['npeaks']
    error = None if case['error'] is None else np.array(case['error'], dtype=float)
    offsets = _fp_offsets(fp)
    exp, undet = oracle_peaks(data, thr, offsets, mask=mask, border=border)
    exp_set, undet_set = set(exp), set(undet)
    bad = []
    info = {'n_expected': len(exp)}

    call = dict(kwargs)
    if mask is not None:
        call['mask'] = mask
    if border is not None:
        call['border_width'] = border
    if npeaks is not None:
        call['npeaks'] = npeaks
    if case['centroid']:
        call['centroid_func'] = _cf
        if error is not None:
            call['error'] = error * u.Jy if case.get('unit') else error
    d_in, t_in = data.copy(), thr
    if case.get('unit'):
        d_in = d_in * u.Jy
        t_in = thr * u.Jy
    d_before = data.copy()
    try:
        tbl = find_peaks(d_in, t_in, **call)
    except Exception as exc:  # noqa: BLE001
        return [('find_peaks/raises', f'find_peaks raised {type(exc).__name__}: {exc}')], info
    if not np.array_equal(d_before, np.asarray(getattr(d_in, 'value', d_in)), equal_nan=True):
        bad.append(('find_peaks/input-modified', 'find_peaks modified the input image'))

    got = [] if tbl is None else [(int(y), int(x)) for y, x in zip(tbl['y_peak'], tbl['x_peak'])]
    info['n_got'] = len(got)
    got_set = set(got)
    if len(got_set) != len(got):
        bad.append(('find_peaks/duplicate-rows', f'duplicate peak rows {got}'))
    nanrep = [p for p in got_set if data[p] != data[p]]
    if nanrep:
        bad.append(('find_peaks/nan-pixel-reported-as-peak',
                    f'NaN pixels {sorted(nanrep)} (y,x) returned as peaks with an invented peak_value'))
    got_cmp = {p for p in got_set if data[p] == data[p]} - undet_set
    nlim = len(exp) if npeaks is None else min(npeaks, len(exp))
    if npeaks is None or npeaks >= len(exp) + len(undet) + len(nanrep):
        if got_cmp != exp_set:
            extra, miss = sorted(got_cmp - exp_set), sorted(exp_set - got_cmp)
            key = 'find_peaks/selection'
            if miss and not extra and all(data[p] < 0 for p in miss):
                key = 'find_peaks/negative-max-lost'
            bad.append((key, f'peak set differs from the definition: extra {extra} missing {miss} (y,x)'))
    else:
        # top-N: every returned pixel is an oracle peak and the value multiset is the N largest
        if not nanrep and not undet:
            if not got_cmp <= exp_set:
                bad.append(('find_peaks/selection', f'returned non-peaks {sorted(got_cmp - exp_set)} with npeaks'))
            want = sorted((data[p] for p in exp), reverse=True)[:nlim]
            have = sorted((data[p] for p in got if p in exp_set), reverse=True)
            if len(got) != nlim or have != want:
                bad.append(('find_peaks/npeaks-top', f'npeaks={npeaks}: values {have} expected the top {want}'))
    if tbl is None:
        if exp and not undet:
            pass  # already reported by selection
    else:
        if len(got) == 0:
            bad.append(('find_peaks/empty-table', 'empty table returned instead of None'))
        ids = [int(i) for i in tbl['id']]
        if ids != list(range(1, len(got) + 1)):
            bad.append(('find_peaks/ids', f'ids {ids} are not 1..N'))
        pv = tbl['peak_value']
        if case.get('unit'):
            if getattr(pv, 'unit', None) != u.Jy:
                bad.append(('find_peaks/unit', 'peak_value lost the data unit'))
            pv = pv.value
        for (y, x), v in zip(got, np.asarray(pv, dtype=float)):
            if data[y, x] == data[y, x] and v != data[y, x]:
                bad.append(('find_peaks/peak-value', f'peak_value {v} != data[{y},{x}] = {data[y, x]}'))
                break
        if case['centroid'] and not nanrep:
            for k, (y, x) in enumerate(got):
                ex, ey = oracle_centroid(data, fp, y, x, mask=mask, error=error)
                gx, gy = float(tbl['x_centroid'][k]), float(tbl['y_centroid'][k])
                if not (abs(gx - ex) <= 1e-9 and abs(gy - ey) <= 1e-9):
                    bad.append(('find_peaks/centroid',
                                f'centroid of peak (y={y},x={x}) is ({gx},{gy}), expected ({ex},{ey}) from '
                                'centroid_func on the footprint window with mask/error'))
                    break
    return bad, info


def _check_fp(ctx, case, keyextra=None, contract='find_peaks=definition'):
    bad, info = eval_find_peaks(case)
    data = _img_from_json(case['data'])
    finite = data[np.isfinite(data)]
    nontrivial = info.get('n_expected', 0) > 0 or len(set(finite.tolist())) >= 2
    key = ('fp', repr(case['data']), repr(case['thr']), repr(case['win']), repr(case['border']),
           repr(case['mask']), case['npeaks'], case['centroid'], case['error'] is not None, case['unit'])
    ctx.case(key, nontrivial=nontrivial, contract=contract,
             sample={'shape': list(data.shape), 'win': case['win'], 'n_expected': info.get('n_expected')})
    seen = set()
    for k, what in bad:
        if k in seen:
            continue
        seen.add(k)
        cnt = ctx.__dict__.setdefault('_c14_keycount', {})
        cnt[k] = cnt.get(k, 0) + 1
        if cnt[k] > 3:          # keep the failure list readable: 3 records per key
            continue
        ctx.check(False, key=k, what=what + f" | shape {data.shape} thr {case['thr'] if np.isscalar(case['thr']) else '2-D'}"
                  f" win {case['win']} border {case['border']} npeaks {case['npeaks']}", case=case)


def _is_constant(a):
    return bool(np.all(a == a.flat[0]))


def _gen_image(rng, h, w, style):
    vals = np.arange(-3, 4).astype(float)
    if style == 'random':
        a = rng.choice(vals, size=(h, w))
    elif style == 'negative':
        a = rng.choice(vals[:3], size=(h, w))
    elif style == 'plateau':
        a = np.full((h, w), float(rng.integers(-3, 1)))
        for _ in range(int(rng.integers(1, 4))):
            y0, x0 = int(rng.integers(0, h)), int(rng.integers(0, w))
            a[y0:y0 + int(rng.integers(1, 4)), x0:x0 + int(rng.integers(1, 4))] = float(rng.integers(-2, 4))
    elif style == 'border':
        a = np.full((h, w), -3.0)
        for _ in range(int(rng.integers(1, 5))):
            side = int(rng.integers(0, 4))
            y = [0, h - 1, int(rng.integers(0, h)), int(rng.integers(0, h))][side]
            x = [int(rng.integers(0, w)), int(rng.integers(0, w)), 0, w - 1][side]
            a[y, x] = float(rng.integers(-2, 4))
    elif style == 'two':
        a = rng.choice(np.array([-1.0, 2.0]), size=(h, w), p=[0.7, 0.3])
    else:
        raise ValueError(style)
    return a


def run_find_peaks(ctx):
    rng = ctx.rng
    # ---- exhaustive blocks (ignore the seed) -------------------------------------------------
    vals = [-2.0, -1.0, 1.0, _NAN]
    blocks = [((2, 3), vals, -3), ((3, 2), vals, -1.5)]
    if ctx.thorough:
        blocks.append(((3, 3), [-2.0, 0.0, 1.0], -3))
        blocks.append(((3, 3), [-2.0, 0.0, 1.0], 0))
    for shape, vset, thr in blocks:
        n = shape[0] * shape[1]
        for tup in itertools.product(vset, repeat=n):
            a = np.array(tup, dtype=float).reshape(shape)
            if _is_constant(a):
                continue
            _check_fp(ctx, _fp_case(a, thr, ('box', 3), None, None, None, False, None),
                      contract='find_peaks=definition/exhaustive')
    # ---- systematic cross on a few fixed images ---------------------------------------------
    fixed = [
        np.array([[-1, -3, -3, -3, -3], [-3, -3, -3, -3, -3], [-3, -3, -2, -3, -3], [-3, -3, -3, -3, -1],
                  [-3, -1, -3, -3, -3]], dtype=float),                     # negative maxima at edges (F19)
        np.array([[0, 0, 1, 1, 0, 0, 2], [0, 0, 1, 1, 0, 0, 0], [3, 0, 0, 0, 0, 2, 2], [0, 0, 0, _NAN, 0, 2, 2],
                  [1, 0, -2, _NAN, 0, 0, 0], [0, 0, 0, 0, 0, 0, 3]], dtype=float),   # plateaus, NaN, border, 6x7
        np.array([[1, 1, 1, 1], [1, _NAN, 1, 1], [1, 1, 1, 5]], dtype=float),        # NaN inside a min plateau
    ]
    wins = [('box', b) for b in BOXES] + [('fp', n) for n in FOOTPRINTS]
    for a in fixed:
        for win in wins:
            for border in BORDERS:
                for thr in (-4, 0, 1):
                    _check_fp(ctx, _fp_case(a, thr, win, border, None, None, False, None),
                              contract='find_peaks=definition/cross')
    # ---- seeded lattice ------------------------------------------------------------------------
    n_lat = 30000 if ctx.thorough else 4200
    styles = ['random', 'random', 'negative', 'plateau', 'border', 'two']
    for it in range(n_lat):
        h, w = int(rng.integers(1, 10)), int(rng.integers(1, 10))
        a = _gen_image(rng, h, w, styles[int(rng.integers(0, len(styles)))])
        mode = it % 10
        has_nan = False
        if mode in (0, 1) and h * w > 1:
            nn = int(rng.integers(1, max(2, h * w // 4)))
            idx = rng.choice(h * w, size=nn, replace=False)
            a.flat[idx] = _NAN
            has_nan = True
        if mode == 2 and it % 200 == 2:
            a[:] = _NAN
            has_nan = True
        if not has_nan and _is_constant(a):
            continue
        if has_nan and not np.all(np.isnan(a)) and _is_constant(a):
            continue
        thr = THRESH[int(rng.integers(0, len(THRESH)))]
        if mode == 3:
            thr = rng.integers(-4, 4, size=(h, w)).astype(float)
        win = wins[int(rng.integers(0, len(wins)))]
        border = BORDERS[int(rng.integers(0, len(BORDERS)))]
        if isinstance(border, (int, tuple)):
            bp = _border_pair(border)
            if bp[0] > h or bp[1] > w:       # as_pair upper bound is the image shape
                border = 'shape'
        mask = None
        mk = int(rng.integers(0, 6))
        if mk == 0:
            mask = rng.random((h, w)) < 0.3
        elif mk == 1:
            mask = np.zeros((h, w), bool)
            mask[a == np.nanmax(a)] = True if not np.all(np.isnan(a)) else False
        elif mk == 2 and it % 50 == 0:
            mask = np.ones((h, w), bool)
        npeaks = [None, None, 1, 2, 3, 'N', 'N+1'][int(rng.integers(0, 7))]
        if isinstance(npeaks, str):
            _, fp = _window(win)
            pk, _u = oracle_peaks(a, thr, _fp_offsets(fp), mask=mask,
                                  border=tuple(a.shape) if border == 'shape' else border)
            npeaks = max(1, len(pk) + (1 if npeaks == 'N+1' else 0))
        centroid, error = False, None
        _, fp = _window(win)
        odd_centre = fp.shape[0] % 2 == 1 and fp.shape[1] % 2 == 1 and fp[fp.shape[0] // 2, fp.shape[1] // 2]
        if mode in (4, 5) and not has_nan and odd_centre:
            centroid = True
            if mode == 5:
                error = rng.integers(1, 5, size=(h, w)).astype(float)
        unit = (mode == 6)
        _check_fp(ctx, _fp_case(a, thr, win, border, mask, npeaks, centroid, error, unit),
                  contract='find_peaks=definition/lattice' + ('+centroid' if centroid else ''))
    # ---- box_size (n, m) == footprint ones((n, m)) incl. even sizes (relational) ----------------
    from photutils.detection import find_peaks
    for it in range(300 if ctx.thorough else 60):
        h, w = int(rng.integers(2, 10)), int(rng.integers(2, 10))
        a = _gen_image(rng, h, w, 'random')
        if _is_constant(a):
            continue
        b = BOXES[it % len(BOXES)]
        shape = (b, b) if np.isscalar(b) else b
        t1 = find_peaks(a, -4, box_size=b)
        t2 = find_peaks(a, -4, footprint=np.ones(shape))
        s1 = None if t1 is None else sorted(zip(t1['y_peak'].tolist(), t1['x_peak'].tolist()))
        s2 = None if t2 is None else sorted(zip(t2['y_peak'].tolist(), t2['x_peak'].tolist()))
        ctx.case(('boxfp', a.tobytes(), b), contract='find_peaks/box==ones-footprint')
        ctx.check(s1 == s2, key='find_peaks/box-vs-footprint',
                  what=f'box_size={b} and footprint=ones({shape}) give different peaks', 
                  case={'kind': 'boxfp', 'data': _jsonable_img(a), 'box': list(shape)})


def run(ctx):
    run_find_peaks(ctx)
    if 'run_finders' in globals():
        run_finders(ctx)


def replay(case):
    try:
        if case['kind'] == 'find_peaks':
            bad, info = eval_find_peaks(case)
            return ('confirmed' if bad else 'spurious'), '; '.join(f'{k}: {w}' for k, w in bad), info
        if case['kind'] == 'boxfp':
            from photutils.detection import find_peaks
            a = _img_from_json(case['data'])
            t1 = find_peaks(a, -4, box_size=tuple(case['box']))
            t2 = find_peaks(a, -4, footprint=np.ones(tuple(case['box'])))
            s1 = None if t1 is None else sorted(zip(t1['y_peak'].tolist(), t1['x_peak'].tolist()))
            s2 = None if t2 is None else sorted(zip(t2['y_peak'].tolist(), t2['x_peak'].tolist()))
            return ('confirmed' if s1 != s2 else 'spurious'), f'{s1} vs {s2}', {}
        if case['kind'] == 'finder':
            bad, info = eval_finder(case)
            return ('confirmed' if bad else 'spurious'), '; '.join(f'{k}: {w}' for k, w in bad), info
    except Exception as exc:  # noqa: BLE001
        return 'error', f'{type(exc).__name__}: {exc}', {}
    return 'error', 'unknown case kind', {}


# ---------------------------------------------------------------------------------------------
# Part 2: star finders - independent oracles
# ---------------------------------------------------------------------------------------------
_F2S = 1.0 / (2.0 * math.sqrt(2.0 * math.log(2.0)))      # fwhm -> sigma


def dao_kernel(fwhm, ratio=1.0, theta=0.0, sigma_radius=1.5):
    """Density-enhancement kernel from its definition (Stetson 1987 / DAOFIND): elliptical Gaussian
    exp(-(a x^2 + 2 b x y + c y^2)) truncated at sigma_radius (or circular radius 2), odd size >= 5,
    zero sum on the support, normalised by the variance term."""
    xs = fwhm * _F2S
    ys = xs * ratio
    t = math.radians(theta)
    ct, st = math.cos(t), math.sin(t)
    a = ct * ct / (2 * xs * xs) + st * st / (2 * ys * ys)
    b = 0.5 * ct * st * (1 / (xs * xs) - 1 / (ys * ys))
    c = st * st / (2 * xs * xs) + ct * ct / (2 * ys * ys)
    f = sigma_radius ** 2 / 2.0
    den = a * c - b * b
    nx = 2 * int(max(2, math.sqrt(c * f / den))) + 1
    ny = 2 * int(max(2, math.sqrt(a * f / den))) + 1
    cx, cy = nx // 2, ny // 2
    g = np.zeros((ny, nx))
    m = np.zeros((ny, nx), bool)
    for j in range(ny):
        for i in range(nx):
            dx, dy = i - cx, j - cy
            er = a * dx * dx + 2 * b * dx * dy + c * dy * dy
            g[j, i] = math.exp(-er)
            m[j, i] = (er <= f) or (math.hypot(dx, dy) <= 2.0)
    gm = g * m
    n = int(m.sum())
    var = (gm ** 2).sum() - gm.sum() ** 2 / n
    data = ((gm - gm.sum() / n) / var) * m
    return {'data': data, 'mask': m, 'gauss': g, 'relerr': 1.0 / math.sqrt(var), 'nx': nx, 'ny': ny,
            'npix': n, 'xsigma': xs, 'ysigma': ys, 'fwhm': fwhm}


def convolve0(data, kernel):
    """True convolution (kernel flipped), zero outside the image, odd kernel centred."""
    h, w = data.shape
    ky, kx = kernel.shape
    cy, cx = ky // 2, kx // 2
    pad = np.zeros((h + 2 * cy, w + 2 * cx))
    pad[cy:cy + h, cx:cx + w] = data
    out = np.zeros((h, w))
    for j in range(ky):
        for i in range(kx):
            k = kernel[j, i]
            if k != 0.0:
                dy, dx = j - cy, i - cx          # out[y, x] += k * data[y - dy, x - dx]
                out += k * pad[cy - dy:cy - dy + h, cx - dx:cx - dx + w]
    return out


def disc_offsets(r):
    n = int(math.floor(r))
    return [(j, i) for j in range(-n, n + 1) for i in range(-n, n + 1) if i * i + j * j <= r * r]


def peaks_tol(conv, thr, offsets, mask=None, border=(0, 0), eps=1e-9):
    """Definite peaks (row-major order) of a float image and an 'ambiguous' flag (a decision closer than eps)."""
    h, w = conv.shape
    my = max([abs(o[0]) for o in offsets] + [0])
    mx = max([abs(o[1]) for o in offsets] + [0])
    pad = np.full((h + 2 * my, w + 2 * mx), -np.inf)
    pad[my:my + h, mx:mx + w] = conv
    nb = np.full((h, w), -np.inf)
    for dy, dx in offsets:
        if (dy, dx) == (0, 0):
            continue
        nb = np.maximum(nb, pad[my + dy:my + dy + h, mx + dx:mx + dx + w])
    ok = np.ones((h, w), bool)
    if mask is not None:
        ok &= ~mask
    by, bx = border
    if by > 0:
        ok[:by] = False
        ok[h - by:] = False
    if bx > 0:
        ok[:, :bx] = False
        ok[:, w - bx:] = False
    definite = ok & (conv > thr + eps) & (conv >= nb + eps)
    maybe = ok & (conv > thr - eps) & (conv > nb - eps) & ~definite
    ys, xs = np.nonzero(definite)
    return [(int(y), int(x)) for y, x in zip(ys, xs)], bool(maybe.any())


def cutout0(data, shape, y, x):
    """shape-sized (odd) window centred on pixel (y, x), zero outside the image."""
    ny, nx = shape
    out = np.zeros((ny, nx))
    for j in range(ny):
        yy = y - ny // 2 + j
        if 0 <= yy < data.shape[0]:
            for i in range(nx):
                xx = x - nx // 2 + i
                if 0 <= xx < data.shape[1]:
                    out[j, i] = data[yy, xx]
    return out


def _moment_shape(cut):
    """(m00, xc, yc, fwhm, roundness, pa) by definition of image moments."""
    yy, xx = np.mgrid[0:cut.shape[0], 0:cut.shape[1]]
    m00 = cut.sum()
    if not m00 > 0:
        return None
    xc, yc = (cut * xx).sum() / m00, (cut * yy).sum() / m00
    mxx = (cut * (xx - xc) ** 2).sum() / m00
    myy = (cut * (yy - yc) ** 2).sum() / m00
    mxy = (cut * (xx - xc) * (yy - yc)).sum() / m00
    msum, mdiff = mxx + myy, mxx - myy
    if not msum > 0:
        return None
    fwhm = 2.0 * math.sqrt(math.log(2.0) * msum)
    rnd = math.sqrt(mdiff ** 2 + 4 * mxy ** 2) / msum
    pa = math.degrees(0.5 * math.atan2(2 * mxy, mdiff))
    if pa < 0:
        pa += 180.0
    return m00, xc, yc, fwhm, rnd, pa


def iraf_row(data, K, y, x):
    cut = cutout0(data, K['mask'].shape, y, x)
    sky = cut[~K['mask']].sum() / np.count_nonzero(~K['mask']) if np.any(~K['mask']) else 0.0
    sub = (cut - sky) * K['mask']
    sub[sub < 0] = 0.0
    npix = int(np.count_nonzero(sub))
    if npix <= 1:
        return None
    ms = _moment_shape(sub)
    if ms is None:
        return None
    m00, xc, yc, fwhm, rnd, pa = ms
    row = {'xcentroid': xc + x - K['nx'] // 2, 'ycentroid': yc + y - K['ny'] // 2, 'fwhm': fwhm,
           'sharpness': fwhm / K['fwhm'], 'roundness': rnd, 'pa': pa, 'npix': npix, 'peak': float(sub.max()),
           'flux': float(m00), 'mag': -2.5 * math.log10(m00)}
    if not all(math.isfinite(v) for v in row.values()):
        return None
    return row


def sf_row(data, kshape, y, x):
    ny, nx = kshape
    ya, yb = max(y - ny // 2, 0), min(y + ny // 2 + 1, data.shape[0])
    xa, xb = max(x - nx // 2, 0), min(x + nx // 2 + 1, data.shape[1])
    cut = np.array(data[ya:yb, xa:xb], dtype=float)
    cut[cut < 0] = 0.0
    ms = _moment_shape(cut)
    if ms is None:
        return None
    m00, xc, yc, fwhm, rnd, pa = ms
    row = {'xcentroid': xc + xa, 'ycentroid': yc + ya, 'fwhm': fwhm, 'roundness': rnd, 'pa': pa,
           'max_value': float(cut.max()), 'flux': float(m00), 'mag': -2.5 * math.log10(m00)}
    if not all(math.isfinite(v) for v in row.values()):
        return None
    return row


def dao_row_attrs(data, conv, K, y, x, thr_eff):
    """sharpness, roundness1, peak, flux, npix, daofind_mag of a DAO source at pixel (y, x) by definition."""
    shape = K['mask'].shape
    cd = cutout0(data, shape, y, x)
    cc = cutout0(conv, shape, y, x)
    cy, cx = shape[0] // 2, shape[1] // 2
    peak, cpeak = cd[cy, cx], cc[cy, cx]
    mean = ((cd * K['mask']).sum() - peak) / (K['npix'] - 1)
    sharp = (peak - mean) / cpeak if cpeak != 0 else float('nan')
    s2 = s4 = 0.0
    for j in range(shape[0]):
        for i in range(shape[1]):
            dy, dx = j - cy, i - cx
            if dy == 0 and dx == 0:
                continue
            v = cc[j, i]
            s4 += abs(v)
            if dy <= 0 and dx > 0:
                s2 -= v
            elif dy < 0 and dx <= 0:
                s2 += v
            elif dy >= 0 and dx < 0:
                s2 -= v
            else:
                s2 += v
    r1 = 2.0 * s2 / s4 if s4 != 0 else float('nan')
    dmag = -2.5 * math.log10(cpeak / thr_eff) if cpeak / thr_eff > 0 else float('nan')
    return {'sharpness': sharp, 'roundness1': r1, 'peak': float(peak), 'flux': float(cd.sum()),
            'npix': shape[0] * shape[1], 'daofind_mag': dmag}


def make_sparse_scene(seed, shape):
    """Noise-free scene on an exactly zero background: compact stars stamped into 7x7 boxes (zero
    outside), isolated hot pixels, a two-pixel streak and a negative pixel -- sources whose cutout
    holds a single positive pixel have undefined shape moments (0/0) and must be dropped."""
    rng = np.random.default_rng(5000 + seed)
    h, w = shape
    img = np.zeros((h, w))
    src = []
    yy, xx = np.mgrid[0:7, 0:7]
    cells = [(cy, cx) for cy in range(6, h - 6, 10) for cx in range(6, w - 6, 10)]
    rng.shuffle(cells)
    for k, (cy, cx) in enumerate(cells[:8]):
        if k < 3:
            s = float(rng.uniform(0.9, 1.4))
            fx, fy = float(rng.uniform(-0.4, 0.4)), float(rng.uniform(-0.4, 0.4))
            amp = float(rng.uniform(20, 60))
            img[cy - 3:cy + 4, cx - 3:cx + 4] += amp * np.exp(-0.5 * (((xx - 3 - fx) / s) ** 2 + ((yy - 3 - fy) / s) ** 2))
            src.append((cx + fx, cy + fy, amp, s, s, 0.0))
        elif k < 6:
            img[cy, cx] = float(rng.uniform(15, 90))                      # isolated hot pixel
            src.append((float(cx), float(cy), float(img[cy, cx]), 0.0, 0.0, 0.0))
        elif k == 6:
            img[cy, cx], img[cy, cx + 1] = 50.0, 35.0                     # two-pixel streak
            src.append((float(cx), float(cy), 50.0, 0.0, 0.0, 0.0))
        else:
            img[cy, cx] = -20.0
    return img, src


def make_scene(seed, shape):
    """Seeded star field: round / elongated / hot pixel / broad blob / saturated plateau / close pair /
    border and corner sources / negative hole + N(0, 0.02) noise.  Returns (image, source list)."""
    rng = np.random.default_rng(1000 + seed)
    h, w = shape
    yy, xx = np.mgrid[0:h, 0:w]
    img = np.zeros((h, w))
    src = []

    def add(x, y, amp, sx, sy, th=0.0):
        t = math.radians(th)
        xr = (xx - x) * math.cos(t) + (yy - y) * math.sin(t)
        yr = -(xx - x) * math.sin(t) + (yy - y) * math.cos(t)
        img[:] += amp * np.exp(-0.5 * ((xr / sx) ** 2 + (yr / sy) ** 2))
        src.append((x, y, amp, sx, sy, th))
    n_round = int(rng.integers(4, 8))
    for _ in range(n_round):
        s = float(rng.uniform(0.9, 1.8))
        add(float(rng.uniform(6, w - 7)), float(rng.uniform(6, h - 7)), float(rng.uniform(5, 60)), s, s)
    add(float(rng.uniform(8, w - 9)), float(rng.uniform(8, h - 9)), 40.0, 2.6, 1.0, float(rng.choice([0, 30, 90, 135])))
    add(float(rng.uniform(8, w - 9)), float(rng.uniform(8, h - 9)), 30.0, 3.5, 3.5)           # broad blob
    x0, y0 = float(rng.uniform(8, w - 12)), float(rng.uniform(8, h - 9))
    add(x0, y0, 35.0, 1.2, 1.2)
    add(x0 + 3.0, y0 + 1.0, 30.0, 1.2, 1.2)                                                   # close pair
    add(float(rng.integers(0, 2)), float(rng.uniform(5, h - 6)), 25.0, 1.3, 1.3)               # left border
    add(float(rng.uniform(5, w - 6)), float(h - 1 - rng.integers(0, 2)), 25.0, 1.3, 1.3)       # top border
    add(float(w - 1), 0.0, 45.0, 1.4, 1.4)                                                     # corner
    hy, hx = int(rng.integers(5, h - 5)), int(rng.integers(5, w - 5))
    img[hy, hx] += 80.0                                                                        # hot pixel
    sxp, syp = float(rng.uniform(8, w - 9)), float(rng.uniform(8, h - 9))
    add(sxp, syp, 300.0, 1.5, 1.5)
    np.minimum(img, 100.0, out=img)                                                            # saturation
    ny0, nx0 = int(rng.integers(4, h - 8)), int(rng.integers(4, w - 8))
    img[ny0:ny0 + 3, nx0:nx0 + 3] -= 15.0                                                      # negative hole
    img += rng.normal(0.0, 0.02, size=(h, w))
    return img, src


# ---------------------------------------------------------------------------------------------
# Part 2: star finders - contracts
# ---------------------------------------------------------------------------------------------
FRAC = [0.1, -0.3, 0.49, -0.49, 0.4, -0.1, 0.3]
_DAO_COLS = ('xcentroid', 'ycentroid', 'sharpness', 'roundness1', 'roundness2', 'npix', 'peak', 'flux', 'mag',
             'daofind_mag')
_IRAF_COLS = ('xcentroid', 'ycentroid', 'fwhm', 'sharpness', 'roundness', 'pa', 'npix', 'peak', 'flux', 'mag')
_SF_COLS = ('xcentroid', 'ycentroid', 'fwhm', 'roundness', 'pa', 'max_value', 'flux', 'mag')
_FINITE = {'dao': ('xcentroid', 'ycentroid', 'sharpness', 'roundness1', 'roundness2', 'peak', 'flux'),
           'iraf': ('xcentroid', 'ycentroid', 'fwhm', 'sharpness', 'roundness', 'pa', 'peak', 'flux', 'mag'),
           'sf': ('xcentroid', 'ycentroid', 'fwhm', 'roundness', 'pa', 'max_value', 'flux', 'mag')}


def _rows(tbl, cols):
    """Table -> list of dict rows of plain floats (units stripped)."""
    if tbl is None:
        return []
    arr = {c: np.asarray(getattr(tbl[c], 'value', tbl[c]), dtype=float) for c in cols}
    return [{c: float(arr[c][k]) for c in cols} for k in range(len(tbl))]


def _same_rows(a, b, tol=1e-12):
    if len(a) != len(b):
        return False
    for ra, rb in zip(a, b):
        for c in ra:
            va, vb = ra[c], rb[c]
            if va != va and vb != vb:
                continue
            if not abs(va - vb) <= tol * max(1.0, abs(va), abs(vb)):
                return False
    return True


def _ids_ok(tbl):
    return tbl is None or [int(i) for i in tbl['id']] == list(range(1, len(tbl) + 1))


def _call(finder, data, mask=None):
    return finder(data, mask=mask) if mask is not None else finder(data)


def eval_finder(case):
    """All contracts for one (finder, scene, configuration).  Returns (violations, info)."""
    import astropy.units as u
    from photutils.detection import DAOStarFinder, IRAFStarFinder, StarFinder

    kind = case['finder']
    cfg = case['cfg']
    data, _src = (make_sparse_scene if cfg.get('sparse') else make_scene)(case['scene_seed'], tuple(case['shape']))
    h, w = data.shape
    mask = None
    if cfg.get('mask'):
        mr = np.random.default_rng(77 + case['scene_seed'])
        mask = mr.random((h, w)) < 0.04
        for (sx, sy, *_r) in _src[::3]:               # mask the peak pixel of every third source
            mask[min(max(int(round(sy)), 0), h - 1), min(max(int(round(sx)), 0), w - 1)] = True
    thr = cfg['threshold']
    minsep = cfg.get('min_separation')
    excl = bool(cfg.get('exclude_border'))
    bad = []
    info = {}
    inf = float('inf')

    def fail(key, what):
        bad.append((f'{kind}/{key}', what))

    # ---- finder factories and the oracle's kernel / convolved image / peaks --------------------
    if kind == 'dao':
        kw = dict(fwhm=cfg['fwhm'], ratio=cfg.get('ratio', 1.0), theta=cfg.get('theta', 0.0),
                  sigma_radius=cfg.get('sigma_radius', 1.5), exclude_border=excl)
        if minsep is not None:
            kw['min_separation'] = minsep

        def make(threshold=thr, **over):
            return DAOStarFinder(threshold, **{**kw, **over})
        K = dao_kernel(cfg['fwhm'], cfg.get('ratio', 1.0), cfg.get('theta', 0.0), cfg.get('sigma_radius', 1.5))
        thr_eff = thr * K['relerr']
        ms = 0.0 if minsep is None else minsep
        cols = _DAO_COLS
        open_b = dict(sharplo=-inf, sharphi=inf, roundlo=-inf, roundhi=inf)
    elif kind == 'iraf':
        kw = dict(fwhm=cfg['fwhm'], sigma_radius=cfg.get('sigma_radius', 1.5), exclude_border=excl)
        if minsep is not None:
            kw['min_separation'] = minsep

        def make(threshold=thr, **over):
            return IRAFStarFinder(threshold, **{**kw, **over})
        K = dao_kernel(cfg['fwhm'], 1.0, 0.0, cfg.get('sigma_radius', 1.5))
        thr_eff = thr
        ms = max(2, int(cfg['fwhm'] * 2.5 + 0.5)) if minsep is None else minsep
        cols = _IRAF_COLS
        open_b = dict(sharplo=-inf, sharphi=inf, roundlo=-inf, roundhi=inf)
    else:
        kr = np.random.default_rng(5 + cfg['kernel_id'])
        ky, kx = [(5, 5), (7, 5), (7, 7), (5, 9)][cfg['kernel_id'] % 4]
        gy, gx = np.mgrid[0:ky, 0:kx]
        kern = np.exp(-0.5 * (((gx - kx // 2) / 1.3) ** 2 + ((gy - ky // 2) / 1.3) ** 2))
        if cfg['kernel_id'] % 2 == 1:                   # asymmetric kernel: convolution flip matters
            kern = kern * (1.0 + 0.15 * (gx - kx // 2) + 0.1 * (gy - ky // 2)).clip(0.2, None)
        kern = kern + 0.01 * kr.random((ky, kx))
        kern0 = kern.copy()
        kw = dict(exclude_border=excl)
        if minsep is not None:
            kw['min_separation'] = minsep

        def make(threshold=thr, **over):
            return StarFinder(threshold, kern, **{**kw, **over})
        kn = kern / kern.max()
        den = (kn ** 2).sum() - kn.sum() ** 2 / kn.size
        K = {'data': (kn - kn.sum() / kn.size) / den, 'mask': np.ones((ky, kx), bool), 'nx': kx, 'ny': ky}
        thr_eff = thr
        ms = 5.0 if minsep is None else minsep
        cols = _SF_COLS
        open_b = {}
    if kind in ('dao', 'iraf'):
        try:
            kreal = make().kernel
            if kreal.data.shape != K['data'].shape or not np.allclose(kreal.data, K['data'], rtol=1e-10, atol=1e-13):
                fail('kernel-definition', f'kernel differs from the zero-sum truncated Gaussian definition for {kw}')
                return bad, info
            if abs(K['data'].sum()) > 1e-10 or K['nx'] % 2 == 0 or K['ny'] % 2 == 0 or min(K['nx'], K['ny']) < 5:
                fail('kernel-definition', 'kernel not zero-sum / odd / >= 5')
        except Exception as exc:  # noqa: BLE001
            fail('raises', f'constructor raised {type(exc).__name__}: {exc}')
            return bad, info
    conv = convolve0(data, K['data'])
    offsets = _fp_offsets(K['mask']) if ms == 0 else disc_offsets(ms)
    border = ((K['ny'] - 1) // 2, (K['nx'] - 1) // 2) if excl else (0, 0)
    scale = max(1.0, float(np.abs(conv).max()))
    P, amb = peaks_tol(conv, thr_eff, offsets, mask=mask, border=border, eps=1e-9 * scale)
    info['n_peaks'] = len(P)
    info['ambiguous'] = amb
    if amb:
        return bad, info
    hx, hy = K['nx'] / 2.0, K['ny'] / 2.0

    def within_kernel(row):
        return any(abs(row['xcentroid'] - x) <= hx + 1e-9 and abs(row['ycentroid'] - y) <= hy + 1e-9 for y, x in P)

    # ---- base run with open bounds ---------------------------------------------------------------
    data0 = data.copy()
    try:
        t_open = _call(make(**open_b), data, mask)
    except Exception as exc:  # noqa: BLE001
        fail('raises', f'find_stars raised {type(exc).__name__}: {exc}')
        return bad, info
    if not np.array_equal(data0, data):
        fail('input-modified', 'find_stars modified the input image')
    if kind == 'sf' and not np.array_equal(kern0, kern):
        fail('kernel-modified', 'StarFinder modified the input kernel')
    r_open = _rows(t_open, cols)
    info['n_open'] = len(r_open)
    if t_open is not None and len(t_open) == 0:
        fail('empty-table', 'empty table instead of None')
    if not _ids_ok(t_open):
        fail('ids', 'ids are not 1..N')
    for r in r_open:
        if not all(math.isfinite(r[c]) for c in _FINITE[kind]):
            fail('nonfinite-row', f'non-finite value in output row {r}')
            break
    for r in r_open:
        if not within_kernel(r):
            fail('centroid-outside-kernel-of-peak',
                 f"centroid ({r['xcentroid']:.3f},{r['ycentroid']:.3f}) not within the {K['nx']}x{K['ny']} kernel of any "
                 f'oracle peak (min_separation {ms}, exclude_border {excl})')
            break
    if len(r_open) > len(P):
        fail('more-rows-than-peaks', f'{len(r_open)} rows but only {len(P)} peaks of the convolved image qualify')

    # ---- full definition oracle (IRAF / StarFinder) -------------------------------------------
    if kind in ('iraf', 'sf'):
        exp = []
        for y, x in P:
            r = iraf_row(data, K, y, x) if kind == 'iraf' else sf_row(data, K['mask'].shape, y, x)
            if r is not None:
                exp.append(r)
        ok = len(exp) == len(r_open)
        if ok:
            for re_, rg in zip(exp, r_open):
                for c in cols:
                    a, b = re_[c], rg[c]
                    if c == 'pa':
                        if re_['roundness'] < 1e-6:
                            continue
                        d = abs(a - b) % 180.0
                        if min(d, 180.0 - d) > 1e-5:
                            ok = False
                    elif not abs(a - b) <= 1e-7 * max(1.0, abs(a)) + 1e-9:
                        ok = False
        if not ok:
            fail('table-vs-definition',
                 f'output ({len(r_open)} rows) differs from the definition oracle ({len(exp)} rows: peaks of the '
                 f'convolved image + moments) min_separation {ms} exclude_border {excl} mask {mask is not None}')
    else:
        if (t_open is None) != (len(r_open) == 0):
            fail('none-iff-empty', 'None / table mismatch')

    # ---- xycoords replaces peak finding by exactly those positions (DAO / IRAF) ---------------
    singles = {}
    if kind in ('dao', 'iraf') and P:
        Pxy = np.array([(x, y) for y, x in P])
        try:
            t_xy = _call(make(xycoords=Pxy, **open_b), data)
        except Exception as exc:  # noqa: BLE001
            fail('raises', f'xycoords run raised {type(exc).__name__}: {exc}')
            return bad, info
        r_xy = _rows(t_xy, cols)
        if not _same_rows(r_xy, r_open):
            fail('xycoords-vs-peaks', f'xycoords = detected peak pixels gives {len(r_xy)} rows, peak finding '
                 f'{len(r_open)} rows / different values (min_separation {ms}, exclude_border {excl})')
        if not _ids_ok(t_xy):
            fail('ids', 'ids are not 1..N (xycoords)')
        # single-position calls: the table is the concatenation of the per-position rows
        if len(P) <= 40:
            cat = []
            for (y, x) in P:
                t1 = _call(make(xycoords=np.array([[x, y]]), **open_b), data)
                r1 = _rows(t1, cols)
                if len(r1) > 1:
                    fail('xycoords-single', 'more than one row for one position')
                singles[(y, x)] = r1[0] if r1 else None
                cat.extend(r1)
            if not _same_rows(cat, r_xy):
                fail('xycoords-row-independence', 'table for N positions != concatenation of the N single-position tables')
        # fractional positions == the pixels containing them
        fr = Pxy + np.array([[FRAC[k % len(FRAC)], FRAC[(k + 3) % len(FRAC)]] for k in range(len(Pxy))])
        t_fr = _call(make(xycoords=fr, **open_b), data)
        if not _same_rows(_rows(t_fr, cols), r_xy):
            fail('xycoords-fractional-shift', 'fractional xycoords give a different table than the rounded pixel '
                 'positions (centroids shifted by the fractional part?)')
        # arbitrary (non-peak, edge, corner) positions: integer vs fractional, and float-typed integers
        qr = np.random.default_rng(case['scene_seed'] + 31)
        Q = np.array([(0, 0), (w - 1, 0), (0, h - 1), (w - 1, h - 1), (w // 2, 0)]
                     + [(int(qr.integers(0, w)), int(qr.integers(0, h))) for _ in range(6)]
                     + [(int(round(s[0])), int(round(s[1]))) for s in _src[:6]])
        Q[:, 0] = Q[:, 0].clip(0, w - 1)
        Q[:, 1] = Q[:, 1].clip(0, h - 1)
        fq = np.array([[FRAC[(k + 1) % len(FRAC)], FRAC[(k + 5) % len(FRAC)]] for k in range(len(Q))])
        fq[(Q[:, 0] == 0) & (fq[:, 0] < 0), 0] *= -1     # keep positions inside the image
        fq[(Q[:, 1] == 0) & (fq[:, 1] < 0), 1] *= -1
        fq[(Q[:, 0] == w - 1) & (fq[:, 0] > 0), 0] *= -1
        fq[(Q[:, 1] == h - 1) & (fq[:, 1] > 0), 1] *= -1
        try:
            tq = _call(make(xycoords=Q, **open_b), data)
            tqf = _call(make(xycoords=Q + fq, **open_b), data)
            tqF = _call(make(xycoords=Q.astype(float), **open_b), data)
        except Exception as exc:  # noqa: BLE001
            fail('raises', f'xycoords (arbitrary positions) raised {type(exc).__name__}: {exc}')
            tq = tqf = tqF = None
        rq = _rows(tq, cols)
        if not _same_rows(_rows(tqf, cols), rq):
            fail('xycoords-fractional-shift', 'arbitrary fractional xycoords differ from their rounded pixel positions')
        if not _same_rows(_rows(tqF, cols), rq):
            fail('xycoords-float-int', 'float-typed integer xycoords differ from int-typed')
        hxq, hyq = K['nx'] / 2.0, K['ny'] / 2.0
        for r in rq:
            if not any(abs(r['xcentroid'] - x) <= hxq + 1e-9 and abs(r['ycentroid'] - y) <= hyq + 1e-9 for x, y in Q):
                fail('xycoords-centroid-outside-kernel', f'row {r} not within the kernel of any supplied position')
                break
            if not all(math.isfinite(r[c]) for c in _FINITE[kind]):
                fail('nonfinite-row', f'non-finite value in xycoords output row {r}')
                break

    # ---- DAO: recompute the row attributes that have a closed definition -----------------------
    if kind == 'dao':
        for (y, x), r in singles.items():
            if r is None:
                continue
            e = dao_row_attrs(data, conv, K, y, x, thr_eff)
            for c, v in e.items():
                if not abs(r[c] - v) <= 1e-7 * max(1.0, abs(v)) + 1e-9:
                    fail('row-attribute-vs-definition', f'{c} = {r[c]} at peak (x={x},y={y}); definition gives {v}')
                    break
            if not (abs(r['xcentroid'] - x) <= hx + 1e-9 and abs(r['ycentroid'] - y) <= hy + 1e-9):
                fail('centroid-outside-kernel-of-peak', f'centroid of the source at (x={x},y={y}) left its kernel: {r}')
            if r['flux'] > 0 and not abs(r['mag'] + 2.5 * math.log10(r['flux'])) <= 1e-9:
                fail('mag', 'mag != -2.5 log10(flux)')

    # ---- inclusive bounds placed on / between reported values; peakmax; brightest; Quantity ----
    pk = 'max_value' if kind == 'sf' else 'peak'
    if r_open:
        def srt(c):
            return sorted(r[c] for r in r_open)
        n = len(r_open)
        bsets = []
        if kind != 'sf':
            rc = 'roundness1' if kind == 'dao' else 'roundness'
            sh, rd = srt('sharpness'), srt(rc)
            bsets.append(dict(sharplo=sh[n // 3], sharphi=sh[(2 * n) // 3], roundlo=-inf, roundhi=inf))
            bsets.append(dict(sharplo=-inf, sharphi=inf, roundlo=rd[n // 4], roundhi=rd[(3 * n) // 4]))
            bsets.append(dict(sharplo=np.nextafter(sh[n // 3], inf), sharphi=inf, roundlo=-inf,
                              roundhi=np.nextafter(rd[(3 * n) // 4], -inf)))
            bsets.append({})                                      # class defaults
            bsets.append(dict(sharplo=sh[-1] + 1.0, sharphi=inf, roundlo=-inf, roundhi=inf))   # nothing qualifies
        else:
            bsets.append({})
        pks = srt(pk)
        pm_list = [None, pks[n // 2], float(np.nextafter(pks[n // 2], -inf)), pks[0] - 1.0]
        defaults = {'dao': dict(sharplo=0.2, sharphi=1.0, roundlo=-1.0, roundhi=1.0),
                    'iraf': dict(sharplo=0.5, sharphi=2.0, roundlo=0.0, roundhi=0.2), 'sf': {}}[kind]
        combos = [(b, pm) for b in bsets for pm in (pm_list if b is bsets[0] else pm_list[:2])]
        for b, pm in combos:
            eff = {**defaults, **b}

            def keep(r):
                if kind == 'dao':
                    if not (eff['sharplo'] <= r['sharpness'] <= eff['sharphi']
                            and eff['roundlo'] <= r['roundness1'] <= eff['roundhi']
                            and eff['roundlo'] <= r['roundness2'] <= eff['roundhi']):
                        return False
                elif kind == 'iraf':
                    if not (eff['sharplo'] <= r['sharpness'] <= eff['sharphi']
                            and eff['roundlo'] <= r['roundness'] <= eff['roundhi']):
                        return False
                return pm is None or r[pk] <= pm
            exp_rows = [r for r in r_open if keep(r)]
            try:
                t_b = _call(make(peakmax=pm, **b), data, mask)
            except Exception as exc:  # noqa: BLE001
                fail('raises', f'bounded run raised {type(exc).__name__}: {exc}')
                continue
            r_b = _rows(t_b, cols)
            if (t_b is None) != (len(exp_rows) == 0):
                fail('none-iff-nothing-qualifies', f'returned {"None" if t_b is None else len(t_b)} but '
                     f'{len(exp_rows)} sources satisfy the bounds {b} peakmax {pm}')
            elif not _same_rows(r_b, exp_rows):
                fail('bounds-inclusive-filter', f'bounds {b} peakmax {pm}: {len(r_b)} rows, expected the '
                     f'{len(exp_rows)} open-bound rows with lo <= value <= hi')
            if not _ids_ok(t_b):
                fail('ids', 'ids are not 1..N after filtering')
            # brightest on top of this filter
            if exp_rows and b is bsets[0]:
                for nb in sorted({1, 2, 3, len(exp_rows), len(exp_rows) + 5}):
                    t_n = _call(make(peakmax=pm, brightest=nb, **b), data, mask)
                    r_n = _rows(t_n, cols)
                    want = sorted((r['flux'] for r in exp_rows), reverse=True)[:nb]
                    have = [r['flux'] for r in r_n]
                    if have != want:
                        fail('brightest', f'brightest={nb}: fluxes {have[:5]}.. expected the largest {want[:5]}..')
                        break
                    if not _ids_ok(t_n):
                        fail('ids', 'ids are not 1..N with brightest')
                    if not all(any(_same_rows([r], [e]) for e in exp_rows) for r in r_n):
                        fail('brightest-rows', 'brightest rows are not rows of the unrestricted table')
        # Quantity data: same numbers, units on peak/flux
        b, pm = bsets[0], pm_list[1]
        try:
            t_u = _call(make(threshold=thr * u.Jy, peakmax=pm * u.Jy, **b), data * u.Jy, mask)
            t_p = _call(make(peakmax=pm, **b), data, mask)
            if not _same_rows(_rows(t_u, cols), _rows(t_p, cols)):
                fail('quantity-values', 'Quantity image gives different numbers than the plain array')
            if t_u is not None and (getattr(t_u[pk], 'unit', None) != u.Jy or getattr(t_u['flux'], 'unit', None) != u.Jy):
                fail('quantity-units', 'peak/flux lost the image unit')
        except Exception as exc:  # noqa: BLE001
            fail('raises', f'Quantity run raised {type(exc).__name__}: {exc}')
    return bad, info


def _finder_configs(ctx):
    rng = ctx.rng
    n_dao, n_iraf, n_sf = (220, 160, 160) if ctx.thorough else (34, 24, 24)
    minseps = [None, 0.5, 1, 2, 2.5, 3.7, 5, 0]
    shapes = [[41, 53], [37, 45]]
    thrs = [1.0, 0.5, 4.0, 12.0]
    out = []
    for k in range(n_dao):
        rt = [(1.0, 0.0), (0.6, 30.0), (0.6, 90.0), (0.6, 135.0), (1.0, 45.0), (0.8, 0.0)][k % 6]
        cfg = {'threshold': thrs[(k // 2) % 4], 'fwhm': [3.0, 2.0, 5.0][(k // 3) % 3], 'ratio': rt[0], 'theta': rt[1],
               'sigma_radius': [1.5, 2.5][(k // 5) % 2], 'min_separation': minseps[(k + k // 8) % 7],
               'exclude_border': bool((k // 2) % 2), 'mask': bool(k % 3 == 1)}
        out.append(('dao', cfg, shapes[k % 2]))
    for k in range(n_iraf):
        cfg = {'threshold': thrs[(k // 2) % 4], 'fwhm': [3.0, 2.0, 4.0][k % 3],
               'sigma_radius': [1.5, 2.5][(k // 3) % 2], 'min_separation': minseps[(k + k // 8) % 8],
               'exclude_border': bool((k // 2) % 2), 'mask': bool(k % 3 == 1)}
        out.append(('iraf', cfg, shapes[k % 2]))
    for k in range(n_sf):
        cfg = {'threshold': thrs[(k // 2) % 4], 'kernel_id': k % 4, 'min_separation': minseps[(k + k // 8) % 8],
               'exclude_border': bool((k // 2) % 2), 'mask': bool(k % 3 == 1)}
        out.append(('sf', cfg, shapes[(k // 4) % 2]))
    # noise-free sparse scenes (single-pixel sources: undefined moments)
    for k in range(12 if ctx.thorough else 4):
        out.append(('sf', {'threshold': [1.0, 4.0][k % 2], 'kernel_id': k % 4, 'min_separation': minseps[k % 3],
                           'exclude_border': False, 'mask': False, 'sparse': True}, shapes[k % 2]))
        out.append(('iraf', {'threshold': [1.0, 4.0][k % 2], 'fwhm': [3.0, 2.0][k % 2], 'sigma_radius': 1.5,
                             'min_separation': minseps[k % 3], 'exclude_border': False, 'mask': False, 'sparse': True},
                    shapes[k % 2]))
        out.append(('dao', {'threshold': [1.0, 4.0][k % 2], 'fwhm': [3.0, 2.0][k % 2], 'ratio': 1.0, 'theta': 0.0,
                            'sigma_radius': 1.5, 'min_separation': minseps[k % 3], 'exclude_border': False,
                            'mask': False, 'sparse': True}, shapes[k % 2]))
    seeds = rng.integers(0, 10 ** 6, size=len(out))
    return [(f, c, s, int(sd)) for (f, c, s), sd in zip(out, seeds)]


def run_finders(ctx):
    for finder, cfg, shape, sd in _finder_configs(ctx):
        case = {'kind': 'finder', 'finder': finder, 'scene_seed': sd, 'shape': shape, 'cfg': cfg}
        bad, info = eval_finder(case)
        ctx.case(('finder', finder, sd, tuple(shape), tuple(sorted((k, repr(v)) for k, v in cfg.items()))),
                 nontrivial=info.get('n_peaks', 0) > 0 and not info.get('ambiguous'),
                 contract=f'{finder}: rows satisfy bounds/kernel/ids/finite; xycoords; brightest; units',
                 sample={'finder': finder, 'cfg': cfg, **info})
        if info.get('ambiguous'):
            ctx.note(f'{finder} scene {sd}: peak/threshold decision within 1e-9 - case skipped')
        seen = set()
        for k, what in bad:
            if k in seen:
                continue
            seen.add(k)
            cnt = ctx.__dict__.setdefault('_c14_keycount', {})
            cnt[k] = cnt.get(k, 0) + 1
            if cnt[k] > 3:
                continue
            ctx.check(False, key=k, what=what + f' | scene seed {sd} shape {shape} cfg {cfg}', case=case)
