"""E4: bounded run-time contract checking of the real functions (the stand-in; never 'proved').

Run with /venv/bin/python:  python -m vf.rtc.run <Cxx> --tier quick|thorough --seed N --out file
A driver module vf/rtc/drivers/<Cxx>.py provides:

    BOUNDS : str     the stated bounds of the enumeration
    RULE   : str     how cases are generated and what makes one distinct / non-trivial
    run(ctx)         enumerate cases, call ctx.case(...) / ctx.check(...)
    replay(case)     re-run one recorded failing case -> (status, detail, observed)
"""
import argparse
import hashlib
import importlib
import json
import os
import sys
import time
import traceback
import warnings


class LibraryStall(BaseException):
    """No driver progress for the stall budget while inside a library call (BaseException so
    that a driver's `except Exception` around the call does not swallow it)."""


class Ctx:
    def __init__(self, prop, tier, seed):
        import numpy as np
        self.prop = prop
        self.tier = tier
        self.seed = seed
        self.rng = np.random.default_rng(seed)
        self.evaluations = 0
        self._distinct = set()
        self.samples = []
        self.failures = []
        self.contracts = {}
        self.notes = []
        self.t0 = time.time()
        self.budget_s = None
        self.last_progress = time.time()

    @property
    def thorough(self):
        return self.tier == 'thorough'

    def case(self, key, nontrivial=True, contract=None, sample=None):
        """Count one evaluated case; `key` identifies distinctness."""
        self.evaluations += 1
        self.last_progress = time.time()
        if nontrivial:
            self._distinct.add(hashlib.md5(repr(key).encode()).hexdigest())
        if contract:
            self.contracts[contract] = self.contracts.get(contract, 0) + 1
        if sample is not None and len(self.samples) < 6:
            self.samples.append(sample)

    def check(self, ok, key, what, case=None):
        """Record a contract failure (key = stable id of the failing site/input class)."""
        self.last_progress = time.time()
        if ok:
            return True
        if len(self.failures) < 200:
            self.failures.append({'key': f'rtc:{self.prop}/{key}', 'what': what, 'case': case})
        return False

    def out_of_time(self):
        return self.budget_s is not None and time.time() - self.t0 > self.budget_s

    def note(self, text):
        self.notes.append(text)


def replay_case(rec):
    drv = importlib.import_module(f'vf.rtc.drivers.{rec["driver"]}')
    with warnings.catch_warnings():
        warnings.simplefilter('ignore')
        return drv.replay(rec['case'])


def main(argv=None):
    ap = argparse.ArgumentParser()
    ap.add_argument('prop')
    ap.add_argument('--tier', default='quick')
    ap.add_argument('--seed', type=int, default=0)
    ap.add_argument('--out', required=True)
    a = ap.parse_args(argv)
    t0 = time.time()
    res = {'prop': a.prop, 'driver': a.prop, 'tier': a.tier, 'seed': a.seed, 'crashed': None}
    ctx = Ctx(a.prop, a.tier, a.seed)
    # stall watchdog: a whole quick driver takes well under a minute; no evaluated case for
    # `stall_s` seconds means a library call does not return (e.g. a loop that no longer ends)
    import signal
    stall_s = float(os.environ.get('VERIF_RTC_STALL_S', 900 if a.tier == 'quick' else 5400))

    def _tick(signum, frame):
        if time.time() - ctx.last_progress > stall_s:
            ctx.last_progress = time.time() + 10 ** 9      # fire once
            raise LibraryStall(''.join(traceback.format_stack(frame)[-12:]))
    signal.signal(signal.SIGALRM, _tick)
    signal.setitimer(signal.ITIMER_REAL, 15, 15)
    try:
        drv = importlib.import_module(f'vf.rtc.drivers.{a.prop}')
        res['bounds'] = drv.BOUNDS
        res['rule'] = drv.RULE
        with warnings.catch_warnings():
            warnings.simplefilter('ignore')
            drv.run(ctx)
    except LibraryStall as exc:
        signal.setitimer(signal.ITIMER_REAL, 0)
        tb = traceback.extract_tb(exc.__traceback__)
        lib = [f for f in tb if '/vf/' not in f.filename and 'photutils' in f.filename]
        drv_frames = [f for f in tb if '/vf/rtc/drivers/' in f.filename]
        if lib and drv_frames:
            top = lib[0]
            ctx.failures.append({
                'key': f'rtc:{a.prop}/no-return/{os.path.basename(top.filename)}:{top.name}',
                'what': f'the library call {top.name} ({top.filename}:{top.lineno}) made from the '
                        f'driver function {drv_frames[-1].name} did not return within {stall_s:.0f} s '
                        '(an entire driver run takes well under a minute); the driver did not finish',
                'case': {'kind': 'no-return', 'stack': str(exc)[-2500:]}})
            ctx.notes.append('driver aborted: a call into the library under test did not return')
        else:
            res['crashed'] = 'driver stalled outside the library: ' + str(exc)[-2500:]
    except Exception as exc:  # noqa: BLE001
        tb = traceback.extract_tb(exc.__traceback__)
        inner = tb[-1] if tb else None
        drv_frames = [f for f in tb if '/vf/rtc/drivers/' in f.filename]
        if inner is not None and '/vf/' not in inner.filename and drv_frames and \
                ('photutils' in inner.filename or inner.filename.endswith('.pyx')):
            # the library under test raised on an input the driver considers valid: the driver
            # stops here, the exception itself is the failing observation
            where = f'{os.path.basename(inner.filename)}:{inner.name}'
            ctx.failures.append({
                'key': f'rtc:{a.prop}/uncaught-exception/{type(exc).__name__}@{where}',
                'what': f'{type(exc).__name__}: {exc} raised by {inner.filename}:{inner.lineno} '
                        f'({inner.name}) while the driver evaluated {drv_frames[-1].name} '
                        f'(line {drv_frames[-1].lineno}); the driver did not finish',
                'case': {'kind': 'uncaught-exception',
                         'traceback': traceback.format_exc()[-2500:]}})
            ctx.notes.append('driver aborted by an exception raised inside the library under test')
        else:
            res['crashed'] = traceback.format_exc()[-3000:]
    signal.setitimer(signal.ITIMER_REAL, 0)
    res.update(evaluations=ctx.evaluations, distinct_nontrivial=len(ctx._distinct),
               samples=ctx.samples, failures=ctx.failures, contracts_evaluated=ctx.contracts,
               notes=ctx.notes, wall_s=round(time.time() - t0, 2))
    os.makedirs(os.path.dirname(os.path.abspath(a.out)), exist_ok=True)
    with open(a.out, 'w') as f:
        json.dump(res, f, indent=1, default=str)
    return 0


if __name__ == '__main__':
    sys.exit(main())
