"""C07 -- "evaluated directly on the pixels carrying that label that are unmasked and finite":
the per-source pixel selection of SourceCatalog.  Every measurement reads its pixels through
_cutout_total_masks (and the moments through _moment_data_cutouts); these contracts pin down, for
every source k and pixel, which pixels those masks exclude."""
from ..pyvc.contracts import Contract

S = 'photutils/segmentation/catalog.py::SourceCatalog'


def register(reg):
    register_aperture_data(reg)
    register_mirror(reg)
    register_fluxerr(reg)
    box = '(0, data_cutout.shape[0]), (0, data_cutout.shape[1])'
    for tag, mspec, mreq, mcl in (
            ('mask', ('arr', 2, 'bool'), ['mask_cutout.shape == data_cutout.shape'],
             ' or mask_cutout[i, j]'),
            ('nomask', None, [], '')):
        reg.add(Contract(
            target=f'{S}._make_cutout_data_mask', props=['C07'], kind='staticmethod', tag=tag,
            params={'data_cutout': ('arr', 2, 'real', 'nonfinite'), 'mask_cutout': mspec},
            requires=mreq, returns=('arr', 2, 'bool'),
            ensures=[('shape', 'result.shape == data_cutout.shape'),
                     ('masked-iff-nonfinite-or-input-mask',
                      f'forall(lambda i, j: iff(result[i, j], not isfinite_at(data_cutout, i, j)'
                      f'{mcl}), {box})')]
            + ([('input-mask-untouched',
                 f'forall(lambda i, j: mask_cutout[i, j] == old_mask_cutout[i, j], {box})')]
               if False else []),
            mutants=[('data_mask = ~np.isfinite(data_cutout)', 'data_mask = np.isfinite(data_cutout)')]
            + ([('data_mask |= mask_cutout', 'data_mask &= mask_cutout')] if mspec else []),
        ))

    reg.record('SourceCatalog', {
        'labels': ('seq', 'int'),
        '_segment_img_cutouts': ('seq', ('arr', 2, 'int')),
        '_cutout_segment_masks': ('seq', ('arr', 2, 'bool')),
        '_cutout_data_masks': ('seq', ('arr', 2, 'bool')),
        '_cutout_total_masks': ('seq', ('arr', 2, 'bool')),
        '_convdata_cutouts': ('seq', ('arr', 2, 'real', 'nonfinite')),
    })
    same_len = lambda a, b: f'len(self.{a}) == len(self.{b})'  # noqa: E731
    reg.add(Contract(
        target=f'{S}._cutout_segment_masks', props=['C07'], kind='property',
        params={'self': 'SourceCatalog'},
        requires=[same_len('labels', '_segment_img_cutouts')],
        ensures=[('one-per-source', 'len(result) == len(self.labels)'),
                 ('true-exactly-off-the-segment',
                  'forall(lambda k: result[k].shape == self._segment_img_cutouts[k].shape and '
                  'forall(lambda i, j: iff(result[k][i, j], '
                  'self._segment_img_cutouts[k][i, j] != self.labels[k]), '
                  '(0, result[k].shape[0]), (0, result[k].shape[1])), (0, len(self.labels)))')],
        mutants=[('segm != label', 'segm == label'), ('segm != label', 'segm > label')],
    ))
    reg.add(Contract(
        target=f'{S}._cutout_total_masks', props=['C07'], kind='property',
        params={'self': 'SourceCatalog'},
        requires=[same_len('_cutout_segment_masks', '_cutout_data_masks'),
                  'forall(lambda k: self._cutout_segment_masks[k].shape == '
                  'self._cutout_data_masks[k].shape, (0, len(self._cutout_data_masks)))'],
        ensures=[('one-per-source', 'len(result) == len(self._cutout_segment_masks)'),
                 ('union-of-segment-mask-and-data-mask',
                  'forall(lambda k: result[k].shape == self._cutout_segment_masks[k].shape and '
                  'forall(lambda i, j: iff(result[k][i, j], self._cutout_segment_masks[k][i, j] '
                  'or self._cutout_data_masks[k][i, j]), (0, result[k].shape[0]), '
                  '(0, result[k].shape[1])), (0, len(self._cutout_segment_masks)))')],
        mutants=[('masks.append(mask1 | mask2)', 'masks.append(mask1 & mask2)'),
                 ('masks.append(mask1 | mask2)', 'masks.append(mask1)')],
    ))
    # bounding boxes: row k's box is made from row k's slices *of this catalog* (whatever order
    # its rows are in); xmax / ymax are inclusive
    reg.record('SourceCatalog@slices', {'_slices_iter': ('seq', 'slice2')})
    sk = 'self._slices_iter[k]'
    okslc = (f'forall(lambda k: {sk}[0].start < {sk}[0].stop and {sk}[1].start < {sk}[1].stop, '
             '(0, len(self._slices_iter)))')
    reg.add(Contract(
        target=f'{S}._bbox', props=['C07', 'C08'], kind='property',
        params={'self': 'SourceCatalog@slices'}, requires=[okslc],
        ensures=[('one-per-row', 'len(result) == len(self._slices_iter)'),
                 ('box-of-the-rows-own-slices',
                  f'forall(lambda k: result[k].ixmin == {sk}[1].start and result[k].ixmax == '
                  f'{sk}[1].stop and result[k].iymin == {sk}[0].start and result[k].iymax == '
                  f'{sk}[0].stop, (0, len(result)))')],
        note='the @use_detcat / @as_scalar decorators are trusted wrappers (delegation to the '
             'detection catalog, scalar unwrapping)',
        mutants=[('ixmin=slc[1].start', 'ixmin=slc[0].start'),
                 ('iymax=slc[0].stop', 'iymax=slc[0].stop - 1'),
                 ('for slc in self._slices_iter', 'for slc in self._slices_iter[::-1]')],
    ))
    for nm, expr, mut in (('bbox_xmin', f'{sk}[1].start', ('slc[1].start', 'slc[0].start')),
                          ('bbox_xmax', f'{sk}[1].stop - 1', ('slc[1].stop - 1', 'slc[1].stop')),
                          ('bbox_ymin', f'{sk}[0].start', ('slc[0].start', 'slc[0].start + 1')),
                          ('bbox_ymax', f'{sk}[0].stop - 1', ('slc[0].stop - 1', 'slc[1].stop - 1'))):
        reg.add(Contract(
            target=f'{S}.{nm}', props=['C07', 'C08'], kind='property',
            params={'self': 'SourceCatalog@slices'},
            ensures=[('one-per-row-from-its-own-slices',
                      f'len(result) == len(self._slices_iter) and forall(lambda k: result[k] == '
                      f'{expr}, (0, len(result)))')],
            mutants=[mut],
        ))
    # segment_area: row k counts the pixels of *its* label inside *its* slices
    reg.record('SourceCatalog@area', {'labels': ('seq', 'int'), '_slices_iter': ('seq', 'slice2'),
                                      '_segment_img': ('arr', 2, 'int')})
    sa = 'self._slices_iter[k]'
    reg.add(Contract(
        target=f'{S}.segment_area', props=['C07', 'C08'], kind='property', block=('areas', 'areas'),
        params={'self': 'SourceCatalog@area'},
        requires=['len(self.labels) == len(self._slices_iter)',
                  f'forall(lambda k: 0 <= {sa}[0].start and {sa}[0].start < {sa}[0].stop and '
                  f'{sa}[0].stop <= self._segment_img.shape[0] and 0 <= {sa}[1].start and '
                  f'{sa}[1].start < {sa}[1].stop and {sa}[1].stop <= self._segment_img.shape[1], '
                  '(0, len(self._slices_iter)))'],
        ensures=[('one-per-row', 'len(areas) == len(self.labels)'),
                 ('counts-the-pixels-of-the-rows-own-label-in-its-own-slices',
                  f'forall(lambda k: areas[k] == np.count_nonzero(self._segment_img[{sa}] == '
                  'self.labels[k]), (0, len(areas)))')],
        mutants=[('self._segment_img[slices] == label', 'self._segment_img[slices] != 0'),
                 ('self._segment_img[slices] == label', 'self._segment_img[slices] >= label'),
                 ('zip(self.labels, self._slices_iter, strict=True)',
                  'zip(self.labels, self._slices_iter[::-1], strict=True)')],
    ))
    reg.add(Contract(
        target=f'{S}._all_masked', props=['C07'], kind='property',
        params={'self': 'SourceCatalog'},
        ensures=[('one-per-source', 'len(result) == len(self._cutout_total_masks)'),
                 ('true-exactly-when-every-pixel-of-the-cutout-is-masked',
                  'forall(lambda k: iff(result[k], forall(lambda i, j: '
                  'self._cutout_total_masks[k][i, j], (0, self._cutout_total_masks[k].shape[0]), '
                  '(0, self._cutout_total_masks[k].shape[1]))), (0, len(result)))')],
        mutants=[('np.all(mask)', 'np.any(mask)'), ('np.all(mask)', 'np.all(~mask)')],
    ))
    reg.add(Contract(
        target=f'{S}._moment_data_cutouts', props=['C07'], kind='property',
        params={'self': 'SourceCatalog'},
        requires=[same_len('_convdata_cutouts', '_cutout_total_masks'),
                  'forall(lambda k: self._convdata_cutouts[k].shape == '
                  'self._cutout_total_masks[k].shape, (0, len(self._convdata_cutouts)))'],
        ensures=[('one-per-source', 'len(result) == len(self._convdata_cutouts)'),
                 ('zero-outside-the-good-nonnegative-pixels',
                  'forall(lambda k: result[k].shape == self._convdata_cutouts[k].shape and '
                  'forall(lambda i, j: result[k][i, j] == ite('
                  'not isfinite_at(self._convdata_cutouts[k], i, j) or '
                  'self._convdata_cutouts[k][i, j] < 0 or self._cutout_total_masks[k][i, j], 0, '
                  'self._convdata_cutouts[k][i, j]), (0, result[k].shape[0]), '
                  '(0, result[k].shape[1])), (0, len(self._convdata_cutouts)))')],
        mutants=[('| (convdata_cutout < 0) | total_mask', '| (convdata_cutout <= 0) & total_mask'),
                 ('| (convdata_cutout < 0) | total_mask', '| total_mask'),
                 ('cutout[convdata_mask] = 0.0', 'cutout[~convdata_mask] = 0.0')],
    ))


def register_fluxerr(reg):
    """segment_fluxerr = sqrt(sum of squared total errors over the source's good pixels): the
    squares must be taken in float -- error maps arrive in any dtype (C15), and narrow integer
    squares wrap around silently."""
    reg.record('SourceCatalogErr', {
        '_error': ('const', 'given'), '_data_unit': None,
        '_error_values': ('seq', ('arr', 1, 'real', 'anydtype'))})
    reg.add(Contract(
        target=f'{S}.segment_fluxerr', props=['C07', 'C15'], kind='property',
        params={'self': 'SourceCatalogErr'},
        ensures=[('one-value-per-source', 'len(result) == len(self._error_values)')],
        note='the decisive obligation is the in-body one: squares are taken after astype(float)',
        mutants=[('np.sum(arr.astype(float)**2)', 'np.sum(arr**2, dtype=float)'),
                 ('np.sum(arr.astype(float)**2)', 'np.sum((arr * arr).astype(float))')],
    ))


def register_mirror(reg):
    """_mask_to_mirrored_value (apermask_method='correct': neighbours inside a source's aperture
    are replaced by the pixel mirrored through the source centre): pixel by pixel,
      out(p) = data(p)                         if p is not to be replaced,
               0                               if its mirror m = 2c - p is off the image, is itself
                                               to be replaced, or is masked,
               data(m)                         otherwise,
    with c = the pixel containing (xcenter, ycenter)."""
    U = 'photutils/segmentation/utils.py::_mask_to_mirrored_value'
    box = '(0, data.shape[0]), (0, data.shape[1])'
    mj, mi = '2 * int(xycenter[1] + 0.5) - j', '2 * int(xycenter[0] + 0.5) - i'
    off = f'({mi} < 0 or {mj} < 0 or {mi} >= data.shape[1] or {mj} >= data.shape[0])'
    for tag, mspec, mreq, mcl in (('mask', ('arr', 2, 'bool', 'nonempty'), ['mask.shape == data.shape'],
                                   f' or mask[{mj}, {mi}]'), ('no-mask', ('const', None), [], '')):
        reg.add(Contract(
            target=U, props=['C07'], tag=tag,
            params={'data': ('arr', 2, 'real', 'nonempty'), 'replace_mask': ('arr', 2, 'bool', 'nonempty'),
                    'xycenter': ('tuple', 'real', 'real'), 'mask': mspec},
            requires=['replace_mask.shape == data.shape', 'xycenter[0] >= 0', 'xycenter[1] >= 0'] + mreq,
            returns=('arr', 2, 'real'),
            replay={'call': 'photutils.segmentation.utils:_mask_to_mirrored_value',
                    'args': ['data', 'replace_mask', 'xycenter', 'mask']},
            ensures=[
                ('shape', 'result.shape == data.shape'),
                ('other-pixels-keep-their-value',
                 f'forall(lambda j, i: implies(not replace_mask[j, i], result[j, i] == data[j, i]), {box})'),
                ('mirror-off-the-image-gives-zero',
                 f'forall(lambda j, i: implies(replace_mask[j, i] and {off}, result[j, i] == 0), {box})'),
                ('unusable-mirror-gives-zero',
                 f'forall(lambda j, i: implies(replace_mask[j, i] and not {off} and '
                 f'(replace_mask[{mj}, {mi}]{mcl}), result[j, i] == 0), {box})'),
                ('usable-mirror-gives-its-value',
                 f'forall(lambda j, i: implies(replace_mask[j, i] and not {off} and not '
                 f'(replace_mask[{mj}, {mi}]{mcl}), result[j, i] == data[{mj}, {mi}]), {box})'),
            ],
            mutants=[('2 * int(xycenter[0] + 0.5) - xmasked', '2 * int(xycenter[1] + 0.5) - xmasked'),
                     ('(xmirror >= data.shape[1])', '(xmirror > data.shape[1])'),
                     ('outdata[ymasked, xmasked] = outdata[ymirror, xmirror]',
                      'outdata[ymasked, xmasked] = outdata[xmirror, ymirror]'),
                     ('outdata[ymasked[badmask], xmasked[badmask]] = 0.0',
                      'outdata[ymasked[badmask], xmasked[badmask]] = 1.0'),
                     ('outdata[ybad, xbad] = 0.0', 'outdata[ybad, xbad] = 1.0'),
                     ('xbad = xmasked[mirror_mask]', 'xbad = xmasked[~mirror_mask]')]
            + ([('mirror_mask |= mask[ymirror, xmirror]', 'mirror_mask |= mask[ymasked, xmasked]')] if mcl else []),
        ))


def register_aperture_data(reg):
    """_make_aperture_data (the cutouts every circular / Kron / flux-fraction measurement of a row
    is made from): the data under the aperture box minus *this row's* local background, the total
    mask there (input mask, non-finite data, and -- apermask_method='mask' -- the pixels of *other*
    labels), the error cutout, and the centroid in cutout coordinates; with 'correct' the
    neighbours' pixels are replaced through _mask_to_mirrored_value about that centroid."""
    bb = 'aperture_bbox'
    DIS = (f'{bb}.ixmin >= self._data.shape[1] or {bb}.iymin >= self._data.shape[0] or '
           f'{bb}.ixmax <= 0 or {bb}.iymax <= 0')
    oy, ox = f'max({bb}.iymin, 0)', f'max({bb}.ixmin, 0)'
    box = (f'(0, min({bb}.iymax, self._data.shape[0]) - {oy}), '
           f'(0, min({bb}.ixmax, self._data.shape[1]) - {ox})')
    at = f'j + {oy}, i + {ox}'
    other = f'(self._segment_img.data[{at}] != label and self._segment_img.data[{at}] != 0)'
    bad = f'(self._mask[{at}] or not isfinite_at(self._data, {at}))'
    for method in ('none', 'mask', 'correct'):
        rec = 'SourceCatalog@aper-' + method
        reg.record('SegmentationImageData', {'data': ('arr', 2, 'int', 'nonempty')})
        reg.record(rec, {'_data': ('arr', 2, 'real', 'nonfinite', 'nonempty'),
                         '_mask': ('arr', 2, 'bool', 'nonempty'),
                         '_error': ('arr', 2, 'real', 'nonempty'),
                         '_segment_img': 'SegmentationImageData',
                         'apermask_method': ('const', method)}, bases=('SourceCatalog',))
        ens = [
            ('none-iff-the-box-misses-the-image', f'iff(result[0] is None, {DIS})'),
            ('centroid-in-cutout-coordinates',
             f'implies(not ({DIS}), result[3][0] == xcentroid - {ox} and result[3][1] == ycentroid - {oy})'),
            ('total-mask' + ('-with-other-labels' if method == 'mask' else ''),
             f'implies(not ({DIS}), forall(lambda j, i: iff(result[2][j, i], {bad}'
             + (f' or {other}' if method == 'mask' else '') + f'), {box}))'),
            ('error-cutout' + ('-off-the-neighbours' if method == 'correct' else ''),
             f'implies(not ({DIS}), forall(lambda j, i: '
             + (f'implies(not {other}, ' if method == 'correct' else '(')
             + f'result[1][j, i] == self._error[{at}]), {box}))'),
            ('data-minus-this-rows-local-background' + ('-off-the-neighbours' if method == 'correct' else ''),
             f'implies(not ({DIS}), forall(lambda j, i: '
             + (f'implies(not {other}, ' if method == 'correct' else '(')
             + f'result[0][j, i] == self._data[{at}] - local_background), {box}))'),
        ]
        if method == 'correct':
            H = f'(min({bb}.iymax, self._data.shape[0]) - {oy})'
            W = f'(min({bb}.ixmax, self._data.shape[1]) - {ox})'
            mj = f'(2 * int(ycentroid - {oy} + 0.5) - j)'
            mi = f'(2 * int(xcentroid - {ox} + 0.5) - i)'
            off = f'({mi} < 0 or {mj} < 0 or {mi} >= {W} or {mj} >= {H})'
            mat = f'{mj} + {oy}, {mi} + {ox}'
            mother = (f'(self._segment_img.data[{mat}] != label and '
                      f'self._segment_img.data[{mat}] != 0)')
            mbad = f'(self._mask[{mat}] or not isfinite_at(self._data, {mat}))'
            ens += [
                ('neighbour-pixel-with-mirror-off-the-cutout-is-zero',
                 f'implies(not ({DIS}), forall(lambda j, i: implies({other} and {off}, '
                 f'result[0][j, i] == 0 and result[1][j, i] == 0), {box}))'),
                ('neighbour-pixel-takes-the-mirrored-pixel-of-this-rows-cutout',
                 f'implies(not ({DIS}), forall(lambda j, i: implies({other} and not {off} and not '
                 f'{mother} and not {mbad}, result[0][j, i] == self._data[{mat}] - local_background '
                 f'and result[1][j, i] == self._error[{mat}]), {box}))'),
                ('neighbour-pixel-with-unusable-mirror-is-zero',
                 f'implies(not ({DIS}), forall(lambda j, i: implies({other} and not {off} and '
                 f'({mother} or {mbad}), result[0][j, i] == 0 and result[1][j, i] == 0), {box}))'),
            ]
        reg.add(Contract(
            target=f'{S}._make_aperture_data', props=['C07', 'C08'], kind='method', tag=method,
            params={'self': rec, 'label': 'pos', 'xcentroid': 'real', 'ycentroid': 'real',
                    'aperture_bbox': 'BoundingBox', 'local_background': 'real',
                    'make_error': ('const', True)},
            requires=['self._mask.shape == self._data.shape', 'self._error.shape == self._data.shape',
                      'self._segment_img.data.shape == self._data.shape',
                      f'{bb}.ixmin < {bb}.ixmax', f'{bb}.iymin < {bb}.iymax',
                      f'xcentroid >= {ox}', f'ycentroid >= {oy}'],
            ensures=ens,
            mutants=[('- local_background', '+ local_background'),
                     ('xcentroid - max(0, aperture_bbox.ixmin)', 'xcentroid - max(0, aperture_bbox.iymin)'),
                     ('self._error[slc_lg]', 'self._error[slc_sm]')]
            + ([('segment_img != label', 'segment_img == label'),
                ('mask = data_mask | segm_mask', 'mask = data_mask & segm_mask')] if method == 'mask' else [])
            + ([('data = _mask_to_mirrored_value(data, segm_mask, cutout_xycen,',
                 'data = _mask_to_mirrored_value(data, segm_mask, (xcentroid, ycentroid),'),
                ('error = _mask_to_mirrored_value(error, segm_mask, cutout_xycen,\n                                                mask=mask)',
                 'error = _mask_to_mirrored_value(error, segm_mask, cutout_xycen,\n                                                mask=None)')]
               if method == 'correct' else []),
        ))

