"""C11: Background2D box exclusion rule, good-pixel threshold, mesh geometry."""
from ..pyvc.contracts import Contract

F = 'photutils/background/background_2d.py::Background2D'


def register(reg):
    reg.record('Background2D', {'exclude_percentile': 'real', '_box_npixels': 'int'})

    reg.add(Contract(
        target=f'{F}._good_npixels_threshold', props=['C11'], kind='property',
        params={'self': 'Background2D'},
        requires=['0 <= self.exclude_percentile', 'self.exclude_percentile <= 100',
                  'self._box_npixels >= 1'],
        ensures=[('threshold', 'result * 100 == (100 - self.exclude_percentile) '
                               '* self._box_npixels')],
        returns='real',
        mutants=[('(1 - (self.exclude_percentile / 100.0))', '(self.exclude_percentile / 100.0)'),
                 ('* self._box_npixels', '* (self._box_npixels - 1)')],
    ))

    # documented rule: a box is excluded iff MORE than exclude_percentile percent of its pixels
    # are masked; completely masked boxes are always excluded
    reg.add(Contract(
        target=f'{F}._compute_box_statistics', props=['C11'], kind='method', stmt='box_mask',
        params={'self': 'Background2D', 'ngood': 'int'},
        requires=['0 <= self.exclude_percentile', 'self.exclude_percentile <= 100',
                  'self._box_npixels >= 1', '0 <= ngood', 'ngood <= self._box_npixels'],
        ensures=[('excluded-iff-more-than-percentile-masked',
                  'iff(value, (self._box_npixels - ngood) * 100 > '
                  'self.exclude_percentile * self._box_npixels or ngood == 0)'),
                 ('percentile-0-keeps-unmasked-boxes',
                  'implies(self.exclude_percentile == 0 and ngood == self._box_npixels, '
                  'not value)'),
                 ('percentile-100-keeps-all-but-empty',
                  'implies(self.exclude_percentile == 100, iff(value, ngood == 0))')],
        mutants=[('ngood < self._good_npixels_threshold', 'ngood <= self._good_npixels_threshold'),
                 ('| (ngood == 0)', '| (ngood < 0)'),
                 ('ngood < self._good_npixels_threshold', 'ngood > self._good_npixels_threshold')],
    ))
