"""C11: Background2D box exclusion rule, good-pixel threshold, mesh geometry."""
from ..pyvc.contracts import Contract

F = 'photutils/background/background_2d.py::Background2D'


def register(reg):
    reg.record('Background2D', {'exclude_percentile': 'real', '_box_npixels': 'int'})

    reg.add(Contract(
        target=f'{F}._good_npixels_threshold', props=['C11'], kind='property',
        params={'self': 'Background2D'},
        requires=['0 <= self.exclude_percentile', 'self.exclude_percentile <= 100',
                  'self._box_npixels >= 1'],
        ensures=[('threshold', 'result * 100 == (100 - self.exclude_percentile) '
                               '* self._box_npixels')],
        returns='real',
        mutants=[('(1 - (self.exclude_percentile / 100.0))', '(self.exclude_percentile / 100.0)'),
                 ('* self._box_npixels', '* (self._box_npixels - 1)')],
    ))

    # documented rule: a box is excluded iff MORE than exclude_percentile percent of its pixels
    # are masked; completely masked boxes are always excluded
    reg.add(Contract(
        target=f'{F}._compute_box_statistics', props=['C11'], kind='method', stmt='box_mask',
        params={'self': 'Background2D', 'ngood': 'int'},
        requires=['0 <= self.exclude_percentile', 'self.exclude_percentile <= 100',
                  'self._box_npixels >= 1', '0 <= ngood', 'ngood <= self._box_npixels'],
        ensures=[('excluded-iff-more-than-percentile-masked',
                  'iff(value, (self._box_npixels - ngood) * 100 > '
                  'self.exclude_percentile * self._box_npixels or ngood == 0)'),
                 ('percentile-0-keeps-unmasked-boxes',
                  'implies(self.exclude_percentile == 0 and ngood == self._box_npixels, '
                  'not value)'),
                 ('percentile-100-keeps-all-but-empty',
                  'implies(self.exclude_percentile == 100, iff(value, ngood == 0))')],
        mutants=[('ngood < self._good_npixels_threshold', 'ngood <= self._good_npixels_threshold'),
                 ('| (ngood == 0)', '| (ngood < 0)'),
                 ('ngood < self._good_npixels_threshold', 'ngood > self._good_npixels_threshold')],
    ))
    register_masks(reg)
    register_filter_grid(reg)


def register_masks(reg):
    """C11 "equal fill_value exactly on coverage_mask pixels" and "unaffected by the values stored
    in masked or coverage-masked pixels": which pixels are excluded from the statistics (the union
    of the input mask, the coverage mask and the invalid-value mask, pixel by pixel), and what
    the full-size map holds on and off the coverage mask."""
    img = ('arr', 2, 'bool')
    for tag, mspec, cspec in (('mask+coverage', img, img), ('mask', img, ('const', None)),
                              ('coverage', ('const', None), img),
                              ('neither', ('const', None), ('const', None))):
        rec = 'Background2D@' + tag
        reg.record(rec, {'_mask': mspec, 'coverage_mask': cspec})
        terms = ['mask[j, i]']
        req = []
        if mspec == img:
            terms.append('old_mask_[j, i]')
            req.append('self._mask.shape == mask.shape')
        if cspec == img:
            terms.append('self.coverage_mask[j, i]')
            req.append('self.coverage_mask.shape == mask.shape')
        reg.add(Contract(
            target=f'{F}._combine_all_masks', props=['C11'], kind='method', tag=tag,
            params={'self': rec, 'mask': img},
            requires=req,
            ensures=[('shape', 'result.shape == mask.shape'),
                     ('union-of-input-coverage-and-invalid-masks',
                      'forall(lambda j, i: iff(result[j, i], '
                      + ' or '.join(terms).replace('old_mask_[j, i]', 'old_self._mask[j, i]')
                      + '), (0, mask.shape[0]), (0, mask.shape[1]))')]
            + ([('coverage-mask-left-as-given',
                 'forall(lambda j, i: iff(self.coverage_mask[j, i], old_self.coverage_mask[j, i]), '
                 '(0, mask.shape[0]), (0, mask.shape[1]))')] if cspec == img else []),
            mutants=([('total_mask = np.logical_or(input_mask, mask)',
                       'total_mask = np.logical_and(input_mask, mask)'),
                      ('total_mask = np.logical_or(input_mask, mask)', 'total_mask = input_mask')]
                     if tag != 'neither' else [])
            ,
            note='_combine_input_masks (no contract of its own) is executed inline',
        ))
    # the full-size map: fill_value exactly on the coverage mask, the interpolated value elsewhere
    for tag, cspec in (('coverage', img), ('nocoverage', ('const', None))):
        rec = 'Background2DImage@' + tag
        reg.record(rec, {'coverage_mask': cspec, 'fill_value': 'real',
                         'interpolator': ('callable', ('arr', 2, 'real')),
                         '_interp_kwargs': ('const', {}), '_unit': ('const', None)})
        cov = 'self.coverage_mask[j, i]'
        reg.add(Contract(
            target=f'{F}._calculate_image', props=['C11'], kind='method', tag=tag,
            block=('data', 'data'),
            params={'self': rec, 'data': ('arr', 2, 'real')},
            requires=[],
            ensures=[('fill-value-exactly-on-the-coverage-mask',
                      'forall(lambda j, i: implies(%s, data[j, i] == self.fill_value), '
                      '(0, data.shape[0]), (0, data.shape[1]))' % (cov if cspec == img else 'False')),
                     ('mesh-input-untouched',
                      'forall(lambda j, i: data_input[j, i] == old_data[j, i], '
                      '(0, old_data.shape[0]), (0, old_data.shape[1]))')],
            mutants=[('data[self.coverage_mask] = self.fill_value',
                      'data[~self.coverage_mask] = self.fill_value'),
                     ('data[self.coverage_mask] = self.fill_value',
                      'data[self.coverage_mask] = 0.0')] if cspec == img else [],
        ))
    register_filter(reg)


def register_filter(reg):
    """Background2D._selective_filter: the median window of mesh (i, j) is the filter window centred
    on it, clipped to the mesh array -- it always contains (i, j) itself (so it is never empty,
    whatever the filter size and wherever the mesh lies) and never reaches outside the array."""
    reg.add(Contract(
        target=f'{F}._selective_filter', props=['C11'], kind='method', tag='window',
        block=('yidx0', 'xidx1'),
        params={'data': ('arr', 2, 'real', 'nonempty'), 'i': 'nat', 'j': 'nat', 'yfs': 'pos',
                'xfs': 'pos', 'hyfs': 'nat', 'hxfs': 'nat'},
        requires=['i < data.shape[0]', 'j < data.shape[1]', 'hyfs == yfs // 2', 'hxfs == xfs // 2'],
        ensures=[('inside-the-mesh-array',
                  '0 <= yidx0 and yidx1 <= data.shape[0] and 0 <= xidx0 and xidx1 <= data.shape[1]'),
                 ('contains-the-mesh-itself', 'yidx0 <= i and i < yidx1 and xidx0 <= j and j < xidx1'),
                 ('the-centred-window-clipped',
                  'yidx0 == max(i - yfs // 2, 0) and yidx1 == min(i - yfs // 2 + yfs, data.shape[0]) '
                  'and xidx0 == max(j - xfs // 2, 0) and xidx1 == min(j - xfs // 2 + xfs, data.shape[1])')],
        mutants=[('yidx1 = min(i - hyfs + yfs, data.shape[0])', 'yidx1 = min(i - hyfs + yfs, data.shape[0] - 1)'),
                 ('xidx0 = max(j - hxfs, 0)', 'xidx0 = max(j - hxfs, 1)'),
                 ('xidx1 = min(j - hxfs + xfs, data.shape[1])', 'xidx1 = min(j - hxfs + xfs, data.shape[0])'),
                 ('yidx0 = max(i - hyfs, 0)', 'yidx0 = max(i + hyfs, 0)')],
    ))


def register_filter_grid(reg):
    """_filter_grid "meshes at or below the filter threshold keep the estimator value of their own
    box": which filter the low-resolution mesh goes through -- none for filter_size (1, 1); the
    median filter of the whole mesh when there is no threshold or the threshold lies below every
    mesh value; the selective filter otherwise (a threshold of exactly 0 is a threshold).
    medfilt_ / selfilt_ name what scipy's generic_filter / _selective_filter return for the mesh."""
    box = '(0, data.shape[0]), (0, data.shape[1])'
    whole = f'forall(lambda j, i: result[j, i] == medfilt_(id_(data), j, i), {box})'
    sel = f'forall(lambda j, i: result[j, i] == selfilt_(id_(data), j, i), {box})'
    reg.add(Contract(
        target='scipy/ndimage/_filters.py::generic_filter', props=['C11'],
        params={'input': ('arr', 2, 'real', 'nonfinite'), 'function': None, 'size': None,
                'mode': 'str', 'cval': None},
        ensures=[('names-the-filtered-mesh', 'result.shape == input.shape and forall(lambda j, i: '
                  'result[j, i] == medfilt_(id_(input), j, i), (0, input.shape[0]), (0, input.shape[1]))')],
        returns=('arr', 2, 'real', 'nonfinite'), assumed=True,
        note='medfilt_ names scipy.ndimage.generic_filter(mesh, nanmedian, size=filter_size, '
             "mode='constant', cval=nan) (external; what it computes: bounded driver)",
    ))
    if 'Background2D' not in reg.records:
        reg.record('Background2D', {})
    for tag, fsize, thr in (('no-filter', (1, 1), ('opt', 'real')), ('no-threshold', (3, 3), ('const', None)),
                            ('threshold', (3, 5), 'real')):
        rec = 'Background2D@filter-' + tag
        reg.record(rec, {'filter_size': ('const', fsize), 'filter_threshold': thr,
                         '_min_bkg_stats': 'real'}, bases=('Background2D',))
        if tag == 'no-filter':
            ens = [('mesh-returned-as-it-is', f'result.shape == data.shape and forall(lambda j, i: '
                                              f'result[j, i] == data[j, i], {box})')]
        elif tag == 'no-threshold':
            ens = [('whole-mesh-median-filtered', whole)]
        else:
            ens = [('whole-mesh-filter-only-below-every-mesh-value',
                    f'implies(self.filter_threshold < self._min_bkg_stats, {whole})'),
                   ('selective-filter-for-every-other-threshold-zero-included',
                    f'implies(self.filter_threshold >= self._min_bkg_stats, {sel})')]
        reg.add(Contract(
            target=f'{F}._filter_grid', props=['C11'], kind='method', tag=tag,
            params={'self': rec, 'data': ('arr', 2, 'real', 'nonfinite', 'nonempty')},
            ensures=ens,
            mutants=[('self.filter_threshold < self._min_bkg_stats', 'self.filter_threshold <= self._min_bkg_stats'),
                     ('self.filter_threshold is None', 'not self.filter_threshold')] if tag == 'threshold' else
                    ([('== (1, 1)', '== (3, 3)')] if tag == 'no-threshold' else
                     [('return data', 'return data + 0 * self._min_bkg_stats + 1')]),
        ))
    reg.add(Contract(
        target=f'{F}._selective_filter', props=['C11'], kind='method', tag='call',
        params={'self': 'Background2D', 'data': ('arr', 2, 'real', 'nonfinite')},
        ensures=[('names-the-selectively-filtered-mesh', 'result.shape == data.shape and forall('
                  'lambda j, i: result[j, i] == selfilt_(id_(data), j, i), (0, data.shape[0]), '
                  '(0, data.shape[1]))')],
        returns=('arr', 2, 'real', 'nonfinite'), assumed=True,
        note='selfilt_ names what _selective_filter returns for the mesh (its window is the '
             'business of the @window block contract)',
    ))
