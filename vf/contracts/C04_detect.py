"""C04 -- detect_sources / detect_threshold: the clauses that do not rest on scipy.ndimage.label:
which pixels can belong to a segment at all (strictly above the threshold, finite, unmasked), the
pixel-wise threshold formula and the connectivity structure handed to the labeller."""
from ..pyvc.contracts import Contract

D = 'photutils/segmentation/detect.py::'
U = 'photutils/segmentation/utils.py::'


def register(reg):
    box = '(0, data.shape[0]), (0, data.shape[1])'
    base = {'data': ('arr', 2, 'real', 'nonfinite'), 'npixels': 'pos'}
    for tag, thr, tspec, treq in (
            ('image-threshold', 'threshold[i, j]', ('arr', 2, 'real'), ['threshold.shape == data.shape']),
            ('scalar-threshold', 'threshold', 'real', [])):
        for mtag, mspec, mreq, mcl in (
                ('mask', ('arr', 2, 'bool'), ['inverse_mask.shape == data.shape'],
                 ' and inverse_mask[i, j]'),
                ('nomask', None, [], '')):
            reg.add(Contract(
                target=D + '_detect_sources', props=['C04'], block=('segment_img', 'segment_img', 1),
                block_like='data > threshold',
                tag=f'candidates-{tag}-{mtag}',
                params={**base, 'threshold': tspec, 'inverse_mask': mspec},
                requires=treq + mreq,
                ensures=[
                    ('shape', 'segment_img.shape == data.shape'),
                    # candidate pixels: strictly above threshold, never NaN, never masked
                    ('candidates-are-exactly-the-finite-unmasked-pixels-above-threshold',
                     f'forall(lambda i, j: iff(segment_img[i, j], isfinite_at(data, i, j) and '
                     f'data[i, j] > {thr}{mcl}), {box})'),
                    ('data-untouched',
                     f'forall(lambda i, j: data_input[i, j] == old_data[i, j], {box})'),
                ],
                mutants=[('segment_img = data > threshold', 'segment_img = data >= threshold')]
                + ([('segment_img &= inverse_mask', 'segment_img |= inverse_mask'),
                    ('if inverse_mask is not None:', 'if inverse_mask is None:')] if mspec else []),
            ))

    # the pixel-wise threshold: background + nsigma * error
    tb = '(0, data.shape[0]), (0, data.shape[1])'
    for tag, bspec, espec, b, e, req in (
            ('images', ('arr', 2, 'real'), ('arr', 2, 'real'), 'background[i, j]', 'error[i, j]',
             ['background.shape == data.shape', 'error.shape == data.shape']),
            ('scalars', 'real', 'real', 'background', 'error', []),
            ('image-background-scalar-error', ('arr', 2, 'real'), 'real', 'background[i, j]',
             'error', ['background.shape == data.shape'])):
        reg.add(Contract(
            target=D + 'detect_threshold', props=['C04', 'C15'], stmt='threshold', tag=f'formula-{tag}',
            stmt_like='np.broadcast_to(background, data.shape) + '
                      'np.broadcast_to(error * nsigma, data.shape)',
            params={'data': ('arr', 2, 'real', 'anydtype'), 'nsigma': 'real', 'background': bspec,
                    'error': espec},
            requires=req,
            ensures=[('shape', 'value.shape == data.shape'),
                     ('background-plus-nsigma-error',
                      f'forall(lambda i, j: value[i, j] == {b} + nsigma * {e}, {tb})')],
            mutants=[('error * nsigma', 'error + nsigma'),
                     ('np.broadcast_to(background, data.shape)\n                 +',
                      'np.broadcast_to(background, data.shape)\n                 -')],
        ))

    reg.add(Contract(
        target=U + '_make_binary_structure', props=['C04'],
        replay={'call': 'photutils.segmentation.utils:_make_binary_structure',
                'args': ['ndim', 'connectivity'], 'const': {'ndim': 2}},
        params={'ndim': ('const', 2), 'connectivity': 'int'},
        cases={'connectivity': [4, 8]},
        raises=[],
        ensures=[('4-connected-is-the-plus',
                  'implies(connectivity == 4, forall(lambda i, j: result[i, j] == '
                  'ite(i == 1 or j == 1, 1, 0), (0, 3), (0, 3)))'),
                 ('8-connected-is-the-full-square',
                  'implies(connectivity == 8, forall(lambda i, j: result[i, j] == 1, '
                  '(0, 3), (0, 3)))'),
                 ('shape', 'result.shape == (3, 3)')],
        mutants=[('((0, 1, 0), (1, 1, 1), (0, 1, 0))', '((0, 1, 0), (1, 1, 1), (0, 1, 1))'),
                 ('if connectivity == 4:', 'if connectivity == 8:')],
    ))
    reg.add(Contract(
        target=U + '_make_binary_structure', props=['C04'], tag='invalid',
        params={'ndim': ('const', 2), 'connectivity': 'int'},
        raises=[('ValueError', 'connectivity != 4 and connectivity != 8')],
        ensures=[],
    ))
    reg.add(Contract(
        target=D + 'detect_sources', props=['C04'], stmt='inverse_mask',
        stmt_like='np.logical_not(mask)',
        params={'mask': ('arr', 2, 'bool')},
        ensures=[('unmasked-pixels', 'forall(lambda i, j: iff(value[i, j], not mask[i, j]), '
                                     '(0, mask.shape[0]), (0, mask.shape[1]))'),
                 ('shape', 'value.shape == mask.shape')],
        mutants=[('inverse_mask = np.logical_not(mask)', 'inverse_mask = np.logical_and(mask, mask)')],
    ))
    register_pruning(reg)


def register_pruning(reg):
    """C04 "keeps exactly those [connected components] with at least npixels pixels": the body of
    the pruning loop of _detect_sources for one labelled component (what the labels are is
    scipy's business).  The component is dropped -- every pixel carrying its label set to 0,
    nothing else touched, the iteration ended -- exactly when the number of pixels carrying the
    label inside its slice is below npixels; otherwise the image is left as it was."""
    pre = ['0 <= slc[0].start', 'slc[0].start < slc[0].stop', 'slc[0].stop <= segment_img.shape[0]',
           '0 <= slc[1].start', 'slc[1].start < slc[1].stop', 'slc[1].stop <= segment_img.shape[1]',
           'label >= 1']
    box = '(0, segment_img.shape[0]), (0, segment_img.shape[1])'
    inslc = ('i >= slc[0].start and i < slc[0].stop and j >= slc[1].start and j < slc[1].stop')
    cnt = 'np.count_nonzero(old_segment_img[slc] == label)'
    kept = 'len(segm_labels) == 1'
    reg.add(Contract(
        target=D + '_detect_sources', props=['C04', 'C06'], tag='pruning-one-component',
        block=('cutout', 'segm_slices'),
        params={'segment_img': ('arr', 2, 'int', 'nonempty'), 'slc': 'slice2', 'label': 'int',
                'npixels': 'pos', 'segm_labels': ('const', []), 'segm_slices': ('const', [])},
        requires=pre,
        ensures=[
            ('kept-iff-at-least-npixels-pixels-carry-the-label',
             f'len(segm_labels) <= 1 and len(segm_slices) == len(segm_labels) and '
             f'iff({kept}, {cnt} >= npixels)'),
            ('a-kept-component-is-recorded-with-its-own-label-and-slices',
             f'implies({kept}, segm_labels[0] == label and segm_slices[0][0].start == slc[0].start '
             'and segm_slices[0][0].stop == slc[0].stop and segm_slices[0][1].start == slc[1].start '
             'and segm_slices[0][1].stop == slc[1].stop)'),
            ('a-dropped-component-is-zeroed-and-nothing-else-changes',
             f'implies(not ({kept}), forall(lambda i, j: segment_img_input[i, j] == '
             f'ite(({inslc}) and old_segment_img[i, j] == label, 0, old_segment_img[i, j]), {box}))'),
            ('a-kept-component-leaves-the-image-as-it-was',
             f'implies({kept}, forall(lambda i, j: segment_img_input[i, j] == '
             f'old_segment_img[i, j], {box}))'),
        ],
        mutants=[('if np.count_nonzero(segment_mask) < npixels:', 'if np.count_nonzero(segment_mask) <= npixels:'),
                 ('segment_mask = (cutout == label)', 'segment_mask = (cutout >= label)'),
                 ('cutout[segment_mask] = 0', 'cutout[segment_mask] = label'),
                 ('if np.count_nonzero(segment_mask) < npixels:', 'if np.count_nonzero(cutout) < npixels:'),
                 ('segm_labels.append(label)', 'segm_labels.append(label + 1)')],
    ))
    register_relabel(reg)


def register_relabel(reg):
    """C04 "labels are 1..N": after pruning, the k-th kept label (in increasing order) becomes
    k + 1 on every pixel that carried it and background stays background -- also when nothing was
    pruned (then the kept labels are already 1..N and the image is returned as it is).
    Preconditions are what the pruning loop establishes: the kept labels are a strictly increasing
    selection of 1..len(labels) and every non-zero pixel carries a kept label."""
    box = '(0, segment_img.shape[0]), (0, segment_img.shape[1])'
    n = 'len(segm_labels)'
    reg.add(Contract(
        target=D + '_detect_sources', props=['C04', 'C05', 'C06'], tag='relabel-kept-components',
        block=('nlabels', 'segment_img'), block_like='len(segm_labels)',
        params={'segment_img': ('arr', 2, 'int', 'nonempty'), 'segm_labels': ('seq', 'int'),
                'labels': ('seq', 'int')},
        requires=[
            f'{n} >= 1 and {n} <= len(labels)',
            'forall(lambda k: labels[k] == k + 1, (0, len(labels)))',
            f'forall(lambda k: segm_labels[k] >= 1 and segm_labels[k] <= len(labels), (0, {n}))',
            # strictly increasing integers (stated with the gap, which is what "strictly
            # increasing" means for integers and what z3 cannot derive by induction itself)
            f'forall(lambda j, k: implies(j < k, segm_labels[k] - segm_labels[j] >= k - j), '
            f'(0, {n}), (0, {n}))',
            f'forall(lambda i, j: segment_img[i, j] == 0 or exists(lambda k: segm_labels[k] == '
            f'segment_img[i, j], (0, {n})), {box})',
        ],
        ensures=[
            ('background-stays-background',
             f'forall(lambda i, j: implies(old_segment_img[i, j] == 0, segment_img[i, j] == 0), {box})'),
            ('kth-kept-label-becomes-k-plus-one',
             f'forall(lambda i, j: forall(lambda k: implies(old_segment_img[i, j] == segm_labels[k], '
             f'segment_img[i, j] == k + 1), (0, {n})), {box})'),
            ('shape', 'segment_img.shape == old_segment_img.shape'),
            ('the-label-list-handed-on-is-1-to-N',
             f'len(labels) == {n} and forall(lambda k: labels[k] == k + 1, (0, {n}))'),
        ],
        mutants=[('label_map[segm_labels] = labels', 'label_map[labels] = segm_labels'),
                 ('            labels = np.arange(nlabels, dtype=segment_img.dtype) + 1',
                  '            labels = np.arange(nlabels, dtype=segment_img.dtype)'),
                 ('if len(labels) != nlabels:', 'if len(labels) == nlabels:'),
                 ('segment_img = label_map[segment_img]', 'segment_img = label_map[segment_img] * 1 + (segment_img > 1)')],
    ))
