"""C12 -- "output rows are in input order with ids 1..N": the permutation that takes per-group
results back to source-id order."""
from ..pyvc.contracts import Contract

P = 'photutils/psf/photometry.py::PSFPhotometry'


def register(reg):
    reg.record('PSFPhotometryOrder', {'_group_results': ('dict', {'ungroup_indices': ('seq', 'int')})})
    idx = "self._group_results['ungroup_indices']"
    reg.add(Contract(
        target=f'{P}._order_by_id', props=['C12'], kind='method',
        params={'self': 'PSFPhotometryOrder', 'iterable': ('seq', 'real')},
        requires=[f'forall(lambda k: {idx}[k] >= 0 and {idx}[k] < len(iterable), (0, len({idx})))'],
        ensures=[('gathers-by-the-ungroup-indices',
                  f'len(result) == len({idx}) and forall(lambda k: result[k] == '
                  f'iterable[{idx}[k]], (0, len(result)))')],
        mutants=[("[iterable[i] for i in self._group_results['ungroup_indices']]",
                  "[iterable[i - 1] for i in self._group_results['ungroup_indices']]")],
    ))
    # ungroup_idx = argsort(ids in group order): reading the per-group results through it lists
    # them by increasing source id, each exactly once
    reg.add(Contract(
        target=f'{P}._fit_sources', props=['C12'], kind='method', stmt='ungroup_idx',
        stmt_like="np.argsort(sources['id'].value)",
        params={'sources': ('dict', {'id': ('record', 'Column', {'value': ('seq', 'int')})})},
        requires=["forall(lambda k, m: implies(k != m, sources['id'].value[k] != "
                  "sources['id'].value[m]), (0, len(sources['id'].value)), "
                  "(0, len(sources['id'].value)))"],
        ensures=[('a-permutation-of-the-rows',
                  "len(value) == len(sources['id'].value) and "
                  "forall(lambda k: value[k] >= 0 and value[k] < len(value), (0, len(value))) and "
                  "forall(lambda k, m: implies(k != m, value[k] != value[m]), (0, len(value)), "
                  "(0, len(value)))"),
                 ('lists-the-rows-by-increasing-source-id',
                  "forall(lambda k, m: implies(k < m, sources['id'].value[value[k]] < "
                  "sources['id'].value[value[m]]), (0, len(value)), (0, len(value)))")],
        mutants=[("np.argsort(sources['id'].value)", "np.argsort(sources['id'].value)[::-1]"),
                 ("np.argsort(sources['id'].value)", "np.argsort(np.argsort(sources['id'].value))")],
    ))
