"""C12 -- "output rows are in input order with ids 1..N": the permutation that takes per-group
results back to source-id order."""
from ..pyvc.contracts import Contract

P = 'photutils/psf/photometry.py::PSFPhotometry'


def register(reg):
    register_flags(reg)
    register_localbkg(reg)
    reg.record('PSFPhotometryOrder', {'_group_results': ('dict', {'ungroup_indices': ('seq', 'int')})})
    idx = "self._group_results['ungroup_indices']"
    reg.add(Contract(
        target=f'{P}._order_by_id', props=['C12'], kind='method',
        params={'self': 'PSFPhotometryOrder', 'iterable': ('seq', 'real')},
        requires=[f'forall(lambda k: {idx}[k] >= 0 and {idx}[k] < len(iterable), (0, len({idx})))'],
        ensures=[('gathers-by-the-ungroup-indices',
                  f'len(result) == len({idx}) and forall(lambda k: result[k] == '
                  f'iterable[{idx}[k]], (0, len(result)))')],
        mutants=[("[iterable[i] for i in self._group_results['ungroup_indices']]",
                  "[iterable[i - 1] for i in self._group_results['ungroup_indices']]")],
    ))
    # ungroup_idx = argsort(ids in group order): reading the per-group results through it lists
    # them by increasing source id, each exactly once
    reg.add(Contract(
        target=f'{P}._fit_sources', props=['C12'], kind='method', stmt='ungroup_idx',
        stmt_like="np.argsort(sources['id'].value)",
        params={'sources': ('dict', {'id': ('record', 'Column', {'value': ('seq', 'int')})})},
        requires=["forall(lambda k, m: implies(k != m, sources['id'].value[k] != "
                  "sources['id'].value[m]), (0, len(sources['id'].value)), "
                  "(0, len(sources['id'].value)))"],
        ensures=[('a-permutation-of-the-rows',
                  "len(value) == len(sources['id'].value) and "
                  "forall(lambda k: value[k] >= 0 and value[k] < len(value), (0, len(value))) and "
                  "forall(lambda k, m: implies(k != m, value[k] != value[m]), (0, len(value)), "
                  "(0, len(value)))"),
                 ('lists-the-rows-by-increasing-source-id',
                  "forall(lambda k, m: implies(k < m, sources['id'].value[value[k]] < "
                  "sources['id'].value[value[m]]), (0, len(value)), (0, len(value)))")],
        mutants=[("np.argsort(sources['id'].value)", "np.argsort(sources['id'].value)[::-1]"),
                 ("np.argsort(sources['id'].value)", "np.argsort(np.argsort(sources['id'].value))")],
    ))


def register_flags(reg):
    """C12 "flags reflect the mask, edges and bounds as documented": per row, flag 1 iff fewer
    pixels were fitted than the fit shape holds, flag 2 iff the fitted position lies outside the
    image (x against the number of columns, y against the number of rows), flag 4 iff the fitted
    flux is not positive -- each row from its own values only."""
    reg.record('FitRow', {'npixfit': 'nat', 'x_fit': 'real', 'y_fit': 'real', 'flux_fit': 'real'})
    maps = {'model': {'x': 'x_0', 'y': 'y_0', 'flux': 'flux'},
            'fit': {'x_0': 'x_fit', 'y_0': 'y_fit', 'flux': 'flux_fit'}}
    reg.record('PSFPhotometryFlags', {'_param_maps': ('const', maps),
                                      'fit_shape': ('tuple', 'pos', 'pos')})
    row = 'results_tbl[k]'
    reg.add(Contract(
        target=f'{P}._define_flags', props=['C12'], kind='method', block=('flags', 'flags', 1),
        tag='flags-1-2-4', block_like='np.zeros(len(results_tbl), dtype=int)',
        params={'self': 'PSFPhotometryFlags', 'results_tbl': ('seq', 'FitRow'),
                'shape': ('tuple', 'pos', 'pos')},
        ensures=[
            ('one-flag-word-per-row', 'flags.shape == (len(results_tbl),)'),
            ('flags-1-2-4-per-row',
             'forall(lambda k: flags[k] == '
             f'ite({row}.npixfit < self.fit_shape[0] * self.fit_shape[1], 1, 0) + '
             f'ite({row}.x_fit < 0 or {row}.y_fit < 0 or {row}.x_fit > shape[1] or '
             f'{row}.y_fit > shape[0], 2, 0) + ite({row}.flux_fit <= 0, 4, 0), '
             '(0, len(results_tbl)))'),
        ],
        mutants=[("row[xcolname] > shape[1] or row[ycolname] > shape[0]",
                  "row[xcolname] > shape[0] or row[ycolname] > shape[1]"),
                 ("if row[fluxcolname] <= 0:", "if row[fluxcolname] < 0:"),
                 ("flags[index] += 2", "flags[index] += 1"),
                 ("if row['npixfit'] < np.prod(self.fit_shape):", "if row['npixfit'] <= np.prod(self.fit_shape):")],
    ))


def register_localbkg(reg):
    """C12 "local-background settings ... masks": LocalBackground.__call__ estimates the
    background of position k from the annulus values of *the caller's data under the caller's
    mask* (apvalues_ names ApertureMask.get_values for a mask object, a data array and a mask
    array -- by identity; bkgest_ the configured estimator), one value per position, in order."""
    L = 'photutils/background/local_background.py::LocalBackground'
    reg.record('ApertureMaskToken', {'idx': 'int'}, bases=('ApertureMaskValues',))
    reg.record('ApertureMaskValues', {'idx': 'int'})
    reg.add(Contract(
        target='photutils/aperture/mask.py::ApertureMaskValues.get_values', props=['C12'],
        kind='method',
        params={'self': 'ApertureMaskValues', 'data': ('arr', 2, 'real'),
                'mask': ('opt', ('arr', 2, 'bool'))},
        defaults={'mask': None},
        ensures=[('names-the-values', 'result == apvalues_(self.idx, id_(data), id_(mask))')],
        returns='real', assumed=True,
        note='apvalues_ names what ApertureMask.get_values returns for this mask object, data '
             'array and mask array (its meaning is the business of the C02 contracts)',
    ))
    reg.record('AnnulusToken', {'positions': None})
    reg.add(Contract(
        target='photutils/aperture/circle.py::AnnulusToken.to_mask', props=['C12'], kind='method',
        params={'self': 'AnnulusToken', 'method': 'str'},
        ensures=[], returns=('seq', 'ApertureMaskToken'), assumed=True,
        note='CircularAnnulus.to_mask returns one mask object per position (only their '
             'identities are used here)',
    ))
    reg.record('LocalBackground', {'bkg_estimator': ('ufunc', 'bkgest', 1),
                                   '_aperture': 'AnnulusToken'})
    for tag, mspec in (('mask', ('arr', 2, 'bool')), ('nomask', ('const', None))):
        reg.add(Contract(
            target=f'{L}.__call__', props=['C12'], kind='method', tag='data-flow-' + tag,
            block=('x', 'bkg', 1),
            params={'self': 'LocalBackground', 'x': ('seq', 'real'), 'y': ('seq', 'real'),
                    'data': ('arr', 2, 'real', 'nonfinite'), 'mask': mspec},
            requires=['len(x) == len(y)'],
            ensures=[('one-per-position', 'len(bkg) == len(apermasks)'),
                     ('estimator-of-the-annulus-values-of-the-callers-data-under-the-callers-mask',
                      'forall(lambda k: bkg[k] == bkgest_(apvalues_(apermasks[k].idx, '
                      'id_(data_input), id_(%s))), (0, len(bkg)))'
                      % ('mask_input' if tag == 'mask' else 'old_mask'))],
            mutants=[('apermask.get_values(data, mask=mask)', 'apermask.get_values(data)'),
                     ('apermask.get_values(data, mask=mask)', 'apermask.get_values(data, mask=~mask)'),
                     ('apermask.get_values(data, mask=mask)', 'apermask.get_values(data * 1, mask=mask)')]
            if tag == 'mask' else
                    [('apermask.get_values(data, mask=mask)', 'apermask.get_values(data + 0, mask=mask)')],
        ))
