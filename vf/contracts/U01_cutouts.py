"""Shared cut-out helper photutils.utils.cutouts._overlap_slices (used by make_model_image,
centroid_sources, centroid_quadratic, CutoutImage under the alias `overlap_slices`).

astropy.nddata.overlap_slices is an external dependency: its contract is *assumed* and states
the documented window exactly -- along each axis the small array's first index is
m = ceil(position - small / 2), the window in the large array is [max(0, m), min(large, m +
small)) and (mode='trim') the window in the small array is [0, stop - start); NoOverlapError when
m + small <= 0 or m >= large.  photutils' wrapper is *verified* against it: same window, and
never an empty one (the wrapper's own zero-width check), which is what every caller's slicing
relies on.
"""
from ..pyvc.contracts import Contract

W = 'photutils/utils/cutouts.py::'


def _axis(k, res='result', small='small_array_shape'):
    m = f'ceil(position[{k}] - {small}[{k}] / 2)'
    return (f'{res}[0][{k}].start == max(0, {m}) and '
            f'{res}[0][{k}].stop == min(large_array_shape[{k}], {m} + {small}[{k}])')


def _m(k):
    return f'ceil(position[{k}] - small_array_shape[{k}] / 2)'


NO_OVERLAP = (f'{_m(0)} + small_array_shape[0] <= 0 or {_m(1)} + small_array_shape[1] <= 0 or '
              f'{_m(0)} >= large_array_shape[0] or {_m(1)} >= large_array_shape[1]')


def register(reg):
    params = {'large_array_shape': ('tuple', 'pos', 'pos'),
              'small_array_shape': ('tuple', 'pos', 'pos'),
              'position': ('tuple', 'real', 'real'), 'mode': 'str'}
    reg.add(Contract(
        target='astropy/nddata/utils.py::overlap_slices', props=['C17', 'C18'],
        params=params, defaults={'mode': 'partial'},
        ensures=[('window-axis-0', _axis(0)), ('window-axis-1', _axis(1)),
                 ('ordered', 'result[0][0].start <= result[0][0].stop and '
                             'result[0][1].start <= result[0][1].stop'),
                 ('trim-small-window',
                  'implies(mode == "trim", '
                  'result[1][0].start == 0 and result[1][1].start == 0 and '
                  'result[1][0].stop == result[0][0].stop - result[0][0].start and '
                  'result[1][1].stop == result[0][1].stop - result[0][1].start)'),
                 ('partial-small-window',
                  'implies(mode == "partial", ' + ' and '.join(
                      f'result[1][{k}].start == max(0, -{_m(k)}) and result[1][{k}].stop == '
                      f'min(large_array_shape[{k}] - {_m(k)}, small_array_shape[{k}])'
                      for k in (0, 1)) + ')')],
        raises=[('NoOverlapError', NO_OVERLAP)],
        returns=('tuple', 'slice2', 'slice2'), assumed=True,
        note='external dependency (astropy.nddata.overlap_slices, default ceil rounding): the '
             'documented window, assumed; it raises NoOverlapError instead of returning when the '
             'arrays do not overlap',
    ))
    reg.add(Contract(
        target=W + '_overlap_slices', props=['C17', 'C18'],
        params=params, defaults={'mode': 'partial'},
        ensures=[('window-axis-0', _axis(0)), ('window-axis-1', _axis(1)),
                 ('never-empty', 'result[0][0].start < result[0][0].stop and '
                                 'result[0][1].start < result[0][1].stop'),
                 ('inside-the-large-array',
                  '0 <= result[0][0].start and result[0][0].stop <= large_array_shape[0] and '
                  '0 <= result[0][1].start and result[0][1].stop <= large_array_shape[1]'),
                 ('trim-small-window',
                  'implies(mode == "trim", '
                  'result[1][0].start == 0 and result[1][1].start == 0 and '
                  'result[1][0].stop == result[0][0].stop - result[0][0].start and '
                  'result[1][1].stop == result[0][1].stop - result[0][1].start)'),
                 ('partial-small-window',
                  'implies(mode == "partial", ' + ' and '.join(
                      f'result[1][{k}].start == max(0, -{_m(k)}) and result[1][{k}].stop == '
                      f'min(large_array_shape[{k}] - {_m(k)}, small_array_shape[{k}])'
                      for k in (0, 1)) + ')')],
        raises=[('NoOverlapError', NO_OVERLAP)], cases={'mode': ['trim', 'partial']},
        returns=('tuple', 'slice2', 'slice2'),
        replay={'call': 'photutils.utils.cutouts:_overlap_slices',
                'args': ['large_array_shape', 'small_array_shape', 'position', 'mode']},
        # (for sizes >= 1 the wrapper's own zero-width check never fires: mutating it is an
        # equivalent change here)
        mutants=[('slc_lg[i].stop - slc_lg[i].start == 0', 'slc_lg[i].stop - slc_lg[i].start >= 0'),
                 ('position, mode=mode)', 'position[::-1], mode=mode)'),
                 ('return slc_lg, slc_sm', 'return slc_sm, slc_lg')],
    ))
    register_covariance(reg)


def register_covariance(reg):
    """C03 for everything cut out through _overlap_slices (centroid boxes, PSF fit windows, model
    rendering): embedding the image at an integer offset (dy, dx) inside a larger canvas shifts the
    window by exactly that offset as long as the window lay inside the original frame, and
    transposing image, box and position swaps the two axes."""
    params = {'large_array_shape': ('tuple', 'pos', 'pos'),
              'small_array_shape': ('tuple', 'pos', 'pos'),
              'position': ('tuple', 'real', 'real'), 'mode': 'str'}
    inside = ' and '.join(f'{_m(k)} >= 0 and {_m(k)} + small_array_shape[{k}] <= large_array_shape[{k}]'
                          for k in (0, 1))
    reg.add(Contract(
        target=W + '_overlap_slices', props=['C03'], tag='translate',
        params=params, cases={'mode': ['trim', 'partial']},
        requires=[inside],          # the footprint lies inside the original frame (C03's domain)
        relate={'extra': {'dx': 'nat', 'dy': 'nat', 'px': 'nat', 'py': 'nat'},
                'second': {'large_array_shape': '(large_array_shape[0] + dy + py, '
                                                'large_array_shape[1] + dx + px)',
                           'position': '(position[0] + dy, position[1] + dx)'}},
        ensures=[('window-shifts-by-the-offset-small-window-fixed',
                  '(result2[0][0].start == result[0][0].start + dy and '
                  'result2[0][0].stop == result[0][0].stop + dy and '
                  'result2[0][1].start == result[0][1].start + dx and '
                  'result2[0][1].stop == result[0][1].stop + dx and '
                  'result2[1][0].start == result[1][0].start and '
                  'result2[1][0].stop == result[1][0].stop and '
                  'result2[1][1].start == result[1][1].start and '
                  'result2[1][1].stop == result[1][1].stop)')],
        mutants=[('position, mode=mode)', '(position[0], position[1] + 0.5), mode=mode)')],
    ))
    reg.add(Contract(
        target=W + '_overlap_slices', props=['C03'], tag='transpose',
        params=params, cases={'mode': ['trim', 'partial']},
        relate={'second': {'large_array_shape': '(large_array_shape[1], large_array_shape[0])',
                           'small_array_shape': '(small_array_shape[1], small_array_shape[0])',
                           'position': '(position[1], position[0])'}},
        ensures=[('axes-swap',
                  'result2[0][0].start == result[0][1].start and '
                  'result2[0][0].stop == result[0][1].stop and '
                  'result2[0][1].start == result[0][0].start and '
                  'result2[0][1].stop == result[0][0].stop and '
                  'result2[1][0].start == result[1][1].start and '
                  'result2[1][0].stop == result[1][1].stop and '
                  'result2[1][1].start == result[1][0].start and '
                  'result2[1][1].stop == result[1][0].stop')],
        mutants=[('position, mode=mode)', '(position[0], position[1] + 0.5), mode=mode)'),
                 ('position, mode=mode)', '(position[0] + 0.5, position[1]), mode=mode)')],
    ))
