"""C16: the pixel set, weights and values ApertureStats computes its statistics from.

Block contract on the body of the per-aperture loop of ApertureStats._make_aperture_cutouts (the
`else` branch: aperture overlaps the data), without sigma clipping:

  mask_cutout(p)   <=>  w(p) == 0  or  mask(p + o)  or  not finite(data(p))
  weight_cutout(p)  =   w(p) if not (mask(p + o) or not finite(data(p))) else 0
  data_cutout(p)    =   w(p) * data0(p) if not mask_cutout(p) else 0
  variance_cutout(p)=   w(p) * error(p + o)^2 if not mask_cutout(p) else 0

with w(p) = apermask.data[p + slc_small.start], o = slc_large.start.  So `sum` is the C02 sum of
(data - bkg) over the same pixels and the centre-method bag is the set of unmasked finite pixels.
"""
from ..pyvc.contracts import Contract

S = 'photutils/aperture/stats.py::ApertureStats'


def register(reg):
    register_masks(reg)
    box = '(0, data_cutout.shape[0]), (0, data_cutout.shape[1])'
    w = 'apermask.data[j + slc_small[0].start, i + slc_small[1].start]'
    m = 'self._mask[j + slc_large[0].start, i + slc_large[1].start]'
    e = 'self._error[j + slc_large[0].start, i + slc_large[1].start]'
    fin = 'isfinite_at(old_data_cutout, j, i)'
    pre = ['0 <= slc_large[0].start', 'slc_large[0].start < slc_large[0].stop',
           '0 <= slc_large[1].start', 'slc_large[1].start < slc_large[1].stop',
           '0 <= slc_small[0].start', '0 <= slc_small[1].start',
           'slc_small[0].stop - slc_small[0].start == slc_large[0].stop - slc_large[0].start',
           'slc_small[1].stop - slc_small[1].start == slc_large[1].stop - slc_large[1].start',
           'slc_small[0].stop <= apermask.data.shape[0]',
           'slc_small[1].stop <= apermask.data.shape[1]',
           'data_cutout.shape == (slc_large[0].stop - slc_large[0].start, '
           'slc_large[1].stop - slc_large[1].start)']

    def variant(tag, maskspec, errspec, extra_pre, bad, with_err):
        reg.record('ApertureStats@' + tag, {'_mask': maskspec, '_error': errspec,
                                            'sigma_clip': ('const', None)})
        ens = [
            ('total-mask', f'forall(lambda j, i: iff(mask_cutout[j, i], {w} == 0 or {bad}), {box})'),
            ('weights', f'forall(lambda j, i: weight_cutout[j, i] == ite({bad}, 0, {w}), {box})'),
            ('weighted-data', f'forall(lambda j, i: data_cutout[j, i] == '
                              f'ite({w} == 0 or {bad}, 0, {w} * old_data_cutout[j, i]), {box})'),
            ('shapes', 'mask_cutout.shape == old_data_cutout.shape and '
                       'weight_cutout.shape == old_data_cutout.shape and '
                       'data_cutout.shape == old_data_cutout.shape'),
            ('input-cutout-unchanged',
             f'forall(lambda j, i: old_data_cutout[j, i] == data_cutout_input[j, i], {box})'),
        ]
        if with_err:
            ens.append(('variance', f'forall(lambda j, i: variance_cutout[j, i] == '
                                    f'ite({w} == 0 or {bad}, 0, {w} * sq({e})), {box})'))
        else:
            ens.append(('variance-none', 'variance_cutout is None'))
        reg.add(Contract(
            target=f'{S}._make_aperture_cutouts', props=['C16'] + (['C15'] if with_err else []),
            kind='method', tag=tag,
            block=('data_mask', 'variance_cutout'), block_like='~np.isfinite(data_cutout)',
            params={'self': 'ApertureStats@' + tag,
                    'data_cutout': ('arr', 2, 'real', 'nonfinite', 'nonempty'),
                    'apermask': ('record', 'ApertureMaskData', {'data': ('arr', 2, 'real')}),
                    'slc_large': 'slice2', 'slc_small': 'slice2'},
            requires=pre + extra_pre,
            ensures=ens,
            mutants=[('(aperweight_cutout == 0) | data_mask', '(aperweight_cutout == 0) & data_mask'),
                     ('weight_cutout = aperweight_cutout * ~data_mask',
                      'weight_cutout = aperweight_cutout * data_mask'),
                     ('apermask.data[slc_small]', 'apermask.data[slc_large]')]
            + ([('data_mask |= self._mask[slc_large]', 'data_mask |= self._mask[slc_small]')]
               if maskspec != ('const', None) else [])
            + ([('self._error[slc_large].astype(float)**2', 'self._error[slc_large]**2'),
                ('self._error[slc_large].astype(float)**2', 'self._error[slc_large].astype(float)'),
                ] if with_err else []),
        ))

    img = ('arr', 2, 'bool', 'nonempty')
    err = ('arr', 2, 'real', 'nonempty', 'anydtype')      # error maps arrive in any dtype (C15)
    inimg_m = ['slc_large[0].stop <= self._mask.shape[0]', 'slc_large[1].stop <= self._mask.shape[1]']
    inimg_e = ['slc_large[0].stop <= self._error.shape[0]',
               'slc_large[1].stop <= self._error.shape[1]']
    variant('mask+error', img, err, inimg_m + inimg_e, f'({m} or not {fin})', True)
    variant('mask', img, ('const', None), inimg_m, f'({m} or not {fin})', False)
    variant('error', ('const', None), err, inimg_e, f'(not {fin})', True)

    # ---- _data_cutouts: cutout k is the data under aperture k's box minus *its own* local
    # background (None exactly when aperture k does not overlap the data); always a float copy
    sl = 'self._overlap_slices[k][0]'
    reg.record('ApertureStats@cutouts', {
        '_overlap_slices': ('seq', ('tuple', ('opt', 'slice2'), ('opt', 'slice2'))),
        '_local_bkg': ('arr', 1, 'real'),
        '_data': ('arr', 2, 'real', 'nonfinite', 'nonempty', 'anydtype')})
    reg.add(Contract(
        target=f'{S}._data_cutouts', props=['C16', 'C15'], kind='method', tag='cutouts',
        params={'self': 'ApertureStats@cutouts'},
        requires=[
            'len(self._local_bkg) == len(self._overlap_slices)',
            f'forall(lambda k: {sl} is None or ('
            f'0 <= {sl}[0].start and {sl}[0].start < {sl}[0].stop and '
            f'{sl}[0].stop <= self._data.shape[0] and 0 <= {sl}[1].start and '
            f'{sl}[1].start < {sl}[1].stop and {sl}[1].stop <= self._data.shape[1]), '
            '(0, len(self._overlap_slices)))'],
        ensures=[
            ('one-per-aperture', 'len(result) == len(self._overlap_slices)'),
            ('none-iff-no-overlap',
             f'forall(lambda k: iff(result[k] is None, {sl} is None), (0, len(result)))'),
            ('shape', f'forall(lambda k: {sl} is None or result[k].shape == '
                      f'({sl}[0].stop - {sl}[0].start, {sl}[1].stop - {sl}[1].start), '
                      '(0, len(result)))'),
            ('own-background-subtracted',
             f'forall(lambda k: {sl} is None or forall(lambda j, i: '
             f'result[k][j, i] == self._data[j + {sl}[0].start, i + {sl}[1].start] '
             '- self._local_bkg[k], (0, result[k].shape[0]), (0, result[k].shape[1])), '
             '(0, len(result)))'),
            ('nonfinite-kept',
             f'forall(lambda k: {sl} is None or forall(lambda j, i: '
             f'iff(isfinite_at(result[k], j, i), isfinite_at(self._data, j + {sl}[0].start, '
             f'i + {sl}[1].start)), (0, result[k].shape[0]), (0, result[k].shape[1])), '
             '(0, len(result)))'),
        ],
        mutants=[('slices[0] is None', 'slices[1] is None'),
                 ('- local_bkg)', '+ local_bkg)'),
                 ('self._data[slices[0]]', 'self._data[slices[1]]'),
                 ('- local_bkg)', '- self._local_bkg[0])')],
        # (dropping `.astype(float, copy=True)` is an equivalent change: the subtraction already
        # yields a fresh float array)
    ))


def register_masks(reg):
    """Which aperture masks the statistics are made from: the sum-method masks are the aperture's
    masks for the configured ``sum_method`` *and* ``subpixels`` (whatever their values), the centre
    masks are its 'center' masks; a scalar aperture's single mask is wrapped in a 1-tuple.
    apmask_(aperture, code of the method, subpixels) names what PixelAperture.to_mask returns."""
    reg.record('ApertureMaskSetToken', {'idx': 'int'})
    reg.record('PixelApertureToken', {'idx': 'int'})
    reg.add(Contract(
        target='photutils/aperture/core.py::PixelApertureToken.to_mask', props=['C16'], kind='method',
        params={'self': 'PixelApertureToken', 'method': 'str', 'subpixels': 'int'},
        defaults={'method': 'exact', 'subpixels': 5},
        ensures=[('names-the-masks', 'result.idx == apmask_(self.idx, code_(method), subpixels)')],
        returns='ApertureMaskSetToken', assumed=True,
        note='apmask_ names the masks PixelAperture.to_mask makes for a method and a subpixels '
             'value (what they are is the business of the C01 / C02 contracts)',
    ))
    for sm in ('exact', 'subpixel', 'center'):
        for scalar in (False, True):
            rec = f'ApertureStats@masks-{sm}-{"scalar" if scalar else "many"}'
            reg.record(rec, {'_pixel_aperture': 'PixelApertureToken', 'sum_method': ('const', sm),
                             'subpixels': 'pos', 'isscalar': ('const', scalar),
                             # (the cached centre masks: some other mask set, available to the code)
                             '_aperture_masks_center': 'ApertureMaskSetToken'})
            get = 'result[0].idx' if scalar else 'result.idx'
            reg.add(Contract(
                target=f'{S}._aperture_masks', props=['C16'], kind='property',
                tag=f'{sm}-{"scalar" if scalar else "many"}', params={'self': rec},
                ensures=[('masks-of-the-configured-method-and-subpixels',
                          f'{get} == apmask_(self._pixel_aperture.idx, code_("{sm}"), self.subpixels)')]
                + ([('one-mask-in-a-tuple', 'len(result) == 1')] if scalar else []),
                mutants=[('subpixels=self.subpixels)', 'subpixels=5)'),
                         ('method=self.sum_method,', "method='center',")] if sm != 'center' else
                        [('subpixels=self.subpixels)', 'subpixels=5)')],
            ))
    for scalar in (False, True):
        rec = f'ApertureStats@cmasks-{"scalar" if scalar else "many"}'
        reg.record(rec, {'_pixel_aperture': 'PixelApertureToken', 'isscalar': ('const', scalar)})
        get = 'result[0].idx' if scalar else 'result.idx'
        reg.add(Contract(
            target=f'{S}._aperture_masks_center', props=['C16'], kind='property',
            tag='scalar' if scalar else 'many', params={'self': rec},
            ensures=[('centre-method-masks',
                      f'{get} == apmask_(self._pixel_aperture.idx, code_("center"), 5)')],
            mutants=[("to_mask(method='center')", "to_mask(method='exact')")],
        ))
