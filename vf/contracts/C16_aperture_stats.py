"""C16: the pixel set, weights and values ApertureStats computes its statistics from.

Block contract on the body of the per-aperture loop of ApertureStats._make_aperture_cutouts (the
`else` branch: aperture overlaps the data), without sigma clipping:

  mask_cutout(p)   <=>  w(p) == 0  or  mask(p + o)  or  not finite(data(p))
  weight_cutout(p)  =   w(p) if not (mask(p + o) or not finite(data(p))) else 0
  data_cutout(p)    =   w(p) * data0(p) if not mask_cutout(p) else 0
  variance_cutout(p)=   w(p) * error(p + o)^2 if not mask_cutout(p) else 0

with w(p) = apermask.data[p + slc_small.start], o = slc_large.start.  So `sum` is the C02 sum of
(data - bkg) over the same pixels and the centre-method bag is the set of unmasked finite pixels.
"""
from ..pyvc.contracts import Contract

S = 'photutils/aperture/stats.py::ApertureStats'


def register(reg):
    box = '(0, data_cutout.shape[0]), (0, data_cutout.shape[1])'
    w = 'apermask.data[j + slc_small[0].start, i + slc_small[1].start]'
    m = 'self._mask[j + slc_large[0].start, i + slc_large[1].start]'
    e = 'self._error[j + slc_large[0].start, i + slc_large[1].start]'
    fin = 'isfinite_at(old_data_cutout, j, i)'
    pre = ['0 <= slc_large[0].start', 'slc_large[0].start < slc_large[0].stop',
           '0 <= slc_large[1].start', 'slc_large[1].start < slc_large[1].stop',
           '0 <= slc_small[0].start', '0 <= slc_small[1].start',
           'slc_small[0].stop - slc_small[0].start == slc_large[0].stop - slc_large[0].start',
           'slc_small[1].stop - slc_small[1].start == slc_large[1].stop - slc_large[1].start',
           'slc_small[0].stop <= apermask.data.shape[0]',
           'slc_small[1].stop <= apermask.data.shape[1]',
           'data_cutout.shape == (slc_large[0].stop - slc_large[0].start, '
           'slc_large[1].stop - slc_large[1].start)']

    def variant(tag, maskspec, errspec, extra_pre, bad, with_err):
        reg.record('ApertureStats@' + tag, {'_mask': maskspec, '_error': errspec,
                                            'sigma_clip': ('const', None)})
        ens = [
            ('total-mask', f'forall(lambda j, i: iff(mask_cutout[j, i], {w} == 0 or {bad}), {box})'),
            ('weights', f'forall(lambda j, i: weight_cutout[j, i] == ite({bad}, 0, {w}), {box})'),
            ('weighted-data', f'forall(lambda j, i: data_cutout[j, i] == '
                              f'ite({w} == 0 or {bad}, 0, {w} * old_data_cutout[j, i]), {box})'),
            ('shapes', 'mask_cutout.shape == old_data_cutout.shape and '
                       'weight_cutout.shape == old_data_cutout.shape and '
                       'data_cutout.shape == old_data_cutout.shape'),
            ('input-cutout-unchanged',
             f'forall(lambda j, i: old_data_cutout[j, i] == data_cutout_input[j, i], {box})'),
        ]
        if with_err:
            ens.append(('variance', f'forall(lambda j, i: variance_cutout[j, i] == '
                                    f'ite({w} == 0 or {bad}, 0, {w} * sq({e})), {box})'))
        else:
            ens.append(('variance-none', 'variance_cutout is None'))
        reg.add(Contract(
            target=f'{S}._make_aperture_cutouts', props=['C16'] + (['C15'] if with_err else []),
            kind='method', tag=tag,
            block=('data_mask', 'variance_cutout'), block_like='~np.isfinite(data_cutout)',
            params={'self': 'ApertureStats@' + tag,
                    'data_cutout': ('arr', 2, 'real', 'nonfinite', 'nonempty'),
                    'apermask': ('record', 'ApertureMaskData', {'data': ('arr', 2, 'real')}),
                    'slc_large': 'slice2', 'slc_small': 'slice2'},
            requires=pre + extra_pre,
            ensures=ens,
            mutants=[('(aperweight_cutout == 0) | data_mask', '(aperweight_cutout == 0) & data_mask'),
                     ('weight_cutout = aperweight_cutout * ~data_mask',
                      'weight_cutout = aperweight_cutout * data_mask'),
                     ('apermask.data[slc_small]', 'apermask.data[slc_large]')]
            + ([('data_mask |= self._mask[slc_large]', 'data_mask |= self._mask[slc_small]')]
               if maskspec != ('const', None) else [])
            + ([('self._error[slc_large].astype(float)**2', 'self._error[slc_large]**2'),
                ('self._error[slc_large].astype(float)**2', 'self._error[slc_large].astype(float)'),
                ] if with_err else []),
        ))

    img = ('arr', 2, 'bool', 'nonempty')
    err = ('arr', 2, 'real', 'nonempty', 'anydtype')      # error maps arrive in any dtype (C15)
    inimg_m = ['slc_large[0].stop <= self._mask.shape[0]', 'slc_large[1].stop <= self._mask.shape[1]']
    inimg_e = ['slc_large[0].stop <= self._error.shape[0]',
               'slc_large[1].stop <= self._error.shape[1]']
    variant('mask+error', img, err, inimg_m + inimg_e, f'({m} or not {fin})', True)
    variant('mask', img, ('const', None), inimg_m, f'({m} or not {fin})', False)
    variant('error', ('const', None), err, inimg_e, f'(not {fin})', True)
