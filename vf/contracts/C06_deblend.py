"""C06 -- "yields labels 1..N when relabel=True ... a parent->children map that matches the
pixels": the relabelling table built from a (cutout of a) label array, with or without background
pixels in it."""
from ..pyvc.contracts import Contract

D = 'photutils/segmentation/deblend.py::'


def register(reg):
    box = '(0, array.shape[0]), (0, array.shape[1])'
    reg.add(Contract(
        target=D + '_get_labels', props=['C06'],
        replay={'call': 'photutils.segmentation.deblend:_get_labels', 'args': ['array']},
        params={'array': ('arr', 2, 'int', 'nonempty')},
        requires=[f'forall(lambda i, j: array[i, j] >= 0, {box})'],
        ensures=[
            ('strictly-increasing',
             'forall(lambda k, m: implies(k < m, result[k] < result[m]), (0, len(result)), '
             '(0, len(result)))'),
            ('every-listed-label-is-a-nonzero-pixel-value',
             'forall(lambda k: result[k] != 0 and exists(lambda i, j: array[i, j] == result[k], '
             f'{box}), (0, len(result)))'),
            ('every-nonzero-pixel-value-is-listed',
             'forall(lambda i, j: implies(array[i, j] != 0, exists(lambda k: result[k] == '
             f'array[i, j], (0, len(result)))), {box})'),
        ],
        returns=('seq', 'int'),
        mutants=[('return labels[labels != 0]', 'return labels[1:]'),
                 ('return labels[labels != 0]', 'return labels[labels > 1]')],
    ))
    reg.add(Contract(
        target=D + '_create_relabel_map', props=['C06'],
        replay={'call': 'photutils.segmentation.deblend:_create_relabel_map',
                'args': ['array', 'start_label']},
        params={'array': ('arr', 2, 'int', 'nonempty'), 'start_label': 'pos'},
        requires=[f'forall(lambda i, j: array[i, j] >= 0, {box})',
                  f'exists(lambda i, j: array[i, j] != 0, {box})'],
        returns=[('result is None', None), ('not (result is None)', ('arr', 1, 'int'))],
        ensures=[
            ('background-stays-background',
             'implies(not (result is None), result[0] == 0)'),
            ('no-source-pixel-becomes-background',
             'implies(not (result is None), forall(lambda i, j: implies(array[i, j] != 0, '
             f'result[array[i, j]] >= start_label), {box}))'),
            ('order-preserving-and-injective-on-present-labels',
             'implies(not (result is None), forall(lambda i, j, p, q: implies(array[i, j] != 0 '
             'and array[p, q] != 0 and array[i, j] < array[p, q], result[array[i, j]] < '
             f'result[array[p, q]]), {box}, {box}))'),
            ('none-only-if-already-consecutive-from-start',
             'implies(result is None, forall(lambda i, j: implies(array[i, j] != 0, '
             f'array[i, j] >= start_label), {box}))'),
        ],
        mutants=[('labels = _get_labels(array)', 'labels = np.unique(array)[1:]'),
                 ('np.arange(len(labels)) + start_label', 'np.arange(len(labels)) + start_label - 1'),
                 ('relabel_map[labels] = np.arange(len(labels)) + start_label',
                  'relabel_map[labels[1:]] = np.arange(len(labels) - 1) + start_label')],
    ))
