"""C06 -- "yields labels 1..N when relabel=True ... a parent->children map that matches the
pixels": the relabelling table built from a (cutout of a) label array, with or without background
pixels in it."""
from ..pyvc.contracts import Contract

D = 'photutils/segmentation/deblend.py::'


def register(reg):
    register_label_map(reg)
    box = '(0, array.shape[0]), (0, array.shape[1])'
    reg.add(Contract(
        target=D + '_get_labels', props=['C06'],
        replay={'call': 'photutils.segmentation.deblend:_get_labels', 'args': ['array']},
        params={'array': ('arr', 2, 'int', 'nonempty')},
        requires=[f'forall(lambda i, j: array[i, j] >= 0, {box})'],
        ensures=[
            ('strictly-increasing',
             'forall(lambda k, m: implies(k < m, result[k] < result[m]), (0, len(result)), '
             '(0, len(result)))'),
            ('every-listed-label-is-a-nonzero-pixel-value',
             'forall(lambda k: result[k] != 0 and exists(lambda i, j: array[i, j] == result[k], '
             f'{box}), (0, len(result)))'),
            ('every-nonzero-pixel-value-is-listed',
             'forall(lambda i, j: implies(array[i, j] != 0, exists(lambda k: result[k] == '
             f'array[i, j], (0, len(result)))), {box})'),
        ],
        returns=('seq', 'int'),
        mutants=[('return labels[labels != 0]', 'return labels[1:]'),
                 ('return labels[labels != 0]', 'return labels[labels > 1]')],
    ))
    reg.add(Contract(
        target=D + '_create_relabel_map', props=['C06'],
        replay={'call': 'photutils.segmentation.deblend:_create_relabel_map',
                'args': ['array', 'start_label']},
        params={'array': ('arr', 2, 'int', 'nonempty'), 'start_label': 'pos'},
        requires=[f'forall(lambda i, j: array[i, j] >= 0, {box})',
                  f'exists(lambda i, j: array[i, j] != 0, {box})'],
        returns=[('result is None', None), ('not (result is None)', ('arr', 1, 'int'))],
        ensures=[
            ('background-stays-background',
             'implies(not (result is None), result[0] == 0)'),
            ('no-source-pixel-becomes-background',
             'implies(not (result is None), forall(lambda i, j: implies(array[i, j] != 0, '
             f'result[array[i, j]] >= start_label), {box}))'),
            ('order-preserving-and-injective-on-present-labels',
             'implies(not (result is None), forall(lambda i, j, p, q: implies(array[i, j] != 0 '
             'and array[p, q] != 0 and array[i, j] < array[p, q], result[array[i, j]] < '
             f'result[array[p, q]]), {box}, {box}))'),
            ('none-only-if-already-consecutive-from-start',
             'implies(result is None, forall(lambda i, j: implies(array[i, j] != 0, '
             f'array[i, j] >= start_label), {box}))'),
        ],
        mutants=[('labels = _get_labels(array)', 'labels = np.unique(array)[1:]'),
                 ('np.arange(len(labels)) + start_label', 'np.arange(len(labels)) + start_label - 1'),
                 ('relabel_map[labels] = np.arange(len(labels)) + start_label',
                  'relabel_map[labels[1:]] = np.arange(len(labels) - 1) + start_label')],
    ))


def register_label_map(reg):
    """_update_deblend_label_map "reports a parent -> children map that matches the pixels": after
    the consecutive relabelling every parent keeps *its own* children, each renamed through the
    relabel map, in the same order (two parents with different numbers of children shown; the
    loop body is the same for any number)."""
    reg.add(Contract(
        target=D + '_update_deblend_label_map', props=['C06'], tag='per-parent',
        params={'deblend_label_map': ('dict', {3: ('arr', 1, 'int'), 7: ('arr', 1, 'int')}),
                'relabel_map': ('arr', 1, 'int')},
        requires=['forall(lambda m: 0 <= deblend_label_map[3][m] and deblend_label_map[3][m] < '
                  'relabel_map.shape[0], (0, deblend_label_map[3].shape[0]))',
                  'forall(lambda m: 0 <= deblend_label_map[7][m] and deblend_label_map[7][m] < '
                  'relabel_map.shape[0], (0, deblend_label_map[7].shape[0]))'],
        ensures=[
            ('same-parents', 'len(result) == 2'),
            ('each-parent-keeps-its-own-children-renamed',
             'result[3].shape == old_deblend_label_map[3].shape and '
             'result[7].shape == old_deblend_label_map[7].shape and '
             'forall(lambda m: result[3][m] == relabel_map[old_deblend_label_map[3][m]], '
             '(0, result[3].shape[0])) and '
             'forall(lambda m: result[7][m] == relabel_map[old_deblend_label_map[7][m]], '
             '(0, result[7].shape[0]))'),
        ],
        mutants=[('relabel_map[new_labels]', 'relabel_map[new_labels - 1]'),
                 ('deblend_label_map[old_label] = relabel_map[new_labels]',
                  'deblend_label_map[old_label] = new_labels')],
    ))
