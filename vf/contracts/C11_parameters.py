"""C11 (also C12/C14/C17 input validation): as_pair -- box sizes / fit shapes are clipped to the
image shape per axis ("boxes larger than the image along an axis use the whole axis")."""
from ..pyvc.contracts import Contract

T = 'photutils/utils/_parameters.py::as_pair'


def register(reg):
    reg.add(Contract(
        target=T, props=['C11', 'C17'], tag='pair-with-upper-bound',
        replay={'call': 'photutils.utils._parameters:as_pair',
                'args': ['name', 'value', 'lower_bound', 'upper_bound'],
                'const': {'name': 'box_size', 'lower_bound': None}},
        params={'name': 'str', 'value': ('arr', 1, 'int'), 'lower_bound': None,
                'upper_bound': ('tuple', 'pos', 'pos'), 'check_odd': ('const', False)},
        requires=['value.shape[0] == 2'],
        ensures=[('clipped-per-axis',
                  'result.shape == (2,) and result[0] == min(value[0], upper_bound[0]) and '
                  'result[1] == min(value[1], upper_bound[1])')],
        mutants=[('min(value[1], upper_bound[1])', 'min(value[1], upper_bound[0])'),
                 ('min(value[0], upper_bound[0])', 'max(value[0], upper_bound[0])')],
    ))
    reg.add(Contract(
        target=T, props=['C11', 'C17'], tag='pair-with-bounds',
        params={'name': 'str', 'value': ('arr', 1, 'int'), 'lower_bound': ('tuple', 'int', 'int'),
                'upper_bound': ('tuple', 'pos', 'pos'), 'check_odd': ('const', False)},
        requires=['value.shape[0] == 2', 'lower_bound[1] == 0 or lower_bound[1] == 1'],
        raises=[('ValueError',
                 'ite(lower_bound[1] == 1, value[0] <= lower_bound[0] or value[1] <= lower_bound[0], '
                 'value[0] < lower_bound[0] or value[1] < lower_bound[0])')],
        ensures=[('clipped-per-axis',
                  'result[0] == min(value[0], upper_bound[0]) and '
                  'result[1] == min(value[1], upper_bound[1])')],
        mutants=[('mask = value <= bound', 'mask = value < bound')],
    ))
    # a scalar is the same size along both axes, then clipped per axis like a pair
    reg.add(Contract(
        target=T, props=['C11', 'C17'], tag='scalar-with-upper-bound',
        params={'name': 'str', 'value': ('arr', 1, 'int'), 'lower_bound': ('tuple', 'int', 'int'),
                'upper_bound': ('tuple', 'pos', 'pos'), 'check_odd': ('const', False)},
        requires=['value.shape[0] == 1', 'lower_bound[1] == 0 or lower_bound[1] == 1'],
        raises=[('ValueError', 'ite(lower_bound[1] == 1, value[0] <= lower_bound[0], '
                               'value[0] < lower_bound[0])')],
        ensures=[('both-axes-the-scalar-clipped-per-axis',
                  'result.shape == (2,) and result[0] == min(value[0], upper_bound[0]) and '
                  'result[1] == min(value[0], upper_bound[1])')],
        mutants=[('value = np.array((value[0], value[0]))', 'value = np.array((value[0], 1))'),
                 ('min(value[1], upper_bound[1])', 'min(value[1], upper_bound[0])')],
    ))

