"""C20 -- "the scalar and array forms of the ellipse coordinate transform agree": both forms are
proved equal to one closed form (sqrt / arcsin uninterpreted), pointwise for the array form."""
from ..pyvc.contracts import Contract

G = 'photutils/isophote/geometry.py::EllipseGeometry'


def spec(x, y):
    x1 = f'({x} - self.x0)'
    y1 = f'({y} - self.y0)'
    r2 = f'(sq({x1}) + sq({y1}))'
    rad = f'ite({r2} > 0, sqrt_({r2}), 0)'
    base = f'ite({r2} > 0, asin_(abs({y1}) / sqrt_({r2})), 1)'
    quad = (f'ite({x1} >= 0 and {y1} < 0, 2 * pi_() - {base}, '
            f'ite({x1} < 0 and {y1} >= 0, pi_() - {base}, '
            f'ite({x1} < 0 and {y1} < 0, pi_() + {base}, {base})))')
    pa1 = 'ite(self.pa < 0, self.pa + 2 * pi_(), self.pa)'
    ang = f'ite({quad} - {pa1} < 0, {quad} - {pa1} + 2 * pi_(), {quad} - {pa1})'
    return rad, ang


def register(reg):
    reg.record('EllipseGeometry', {'x0': 'real', 'y0': 'real', 'pa': 'real'})
    rad, ang = spec('x', 'y')
    reg.add(Contract(
        target=f'{G}._to_polar_scalar', props=['C20'], kind='method',
        params={'self': 'EllipseGeometry', 'x': 'real', 'y': 'real'},
        ensures=[('radius', f'result[0] == {rad}'), ('angle', f'result[1] == {ang}')],
        replay={'call': 'photutils.isophote.geometry:EllipseGeometry._to_polar_scalar',
                'self': 'EllipseGeometry', 'approx': True, 'args': ['x', 'y']},
        returns=('tuple', 'real', 'real'),
        mutants=[('angle = np.pi - angle', 'angle = np.pi + angle'),
                 ('if x1 >= 0.0 and y1 < 0.0', 'if x1 > 0.0 and y1 < 0.0'),
                 ('pa1 = self.pa + 2 * np.pi', 'pa1 = self.pa + np.pi')],
    ))
    radv, angv = spec('x[i, j]', 'y[i, j]')
    reg.add(Contract(
        target=f'{G}._to_polar_vectorized', props=['C20'], kind='method',
        params={'self': 'EllipseGeometry', 'x': ('arr', 2, 'real'), 'y': ('arr', 2, 'real')},
        requires=['x.shape == y.shape'],
        ensures=[('shape', 'result[0].shape == x.shape and result[1].shape == x.shape'),
                 ('radius-pointwise',
                  f'forall(lambda i, j: result[0][i, j] == {radv}, (0, x.shape[0]), (0, x.shape[1]))'),
                 ('angle-pointwise',
                  f'forall(lambda i, j: result[1][i, j] == {angv}, (0, x.shape[0]), (0, x.shape[1]))')],
        mutants=[('idx = (x1 < 0.0) & (y1 >= 0.0)', 'idx = (x1 < 0.0) & (y1 > 0.0)'),
                 ('angle[idx] = np.pi + angle[idx]', 'angle[idx] = np.pi - angle[idx]'),
                 ('angle[angle < 0] += 2 * np.pi', 'angle[angle <= 0] += 2 * np.pi')],
    ))
    reg.add(Contract(
        target=f'{G}.to_polar', props=['C20'], kind='method', tag='scalar',
        params={'self': 'EllipseGeometry', 'x': 'real', 'y': 'real'},
        ensures=[('scalar-form-is-the-closed-form',
                  f'result[0] == {rad} and result[1] == {ang}')],
        note='dispatch on isinstance(x, (int, float)); checked against the callee contract',
        replay={'call': 'photutils.isophote.geometry:EllipseGeometry.to_polar',
                'self': 'EllipseGeometry', 'approx': True, 'args': ['x', 'y']},
    ))
    register_sma(reg)


def register_sma(reg):
    """C20 "a list sorted by strictly increasing semi-major axis": the two functions fit_image
    steps the semi-major axis with.  Going outwards (step > 0) the next sma is strictly larger;
    reset_sma returns the first inward sma and the inward step, such that stepping the *original*
    sma with the inward step gives exactly that sma, which is strictly smaller (and positive in
    geometric mode, where the inward step lies in (-1, 0) so every later inward sma stays
    positive and strictly decreasing)."""
    for tag, lin in (('linear', True), ('geometric', False)):
        reg.record('EllipseGeometry@' + tag, {'sma': 'posreal', 'linear_growth': ('const', lin)})
        nxt = 'self.sma + step' if lin else 'self.sma * (1 + step)'
        reg.add(Contract(
            target=f'{G}.update_sma', props=['C20'], kind='method', tag=tag,
            params={'self': 'EllipseGeometry@' + tag, 'step': 'real'},
            ensures=[('formula', f'result == {nxt}'),
                     ('strictly-outwards-for-a-positive-step', 'implies(step > 0, result > self.sma)'),
                     ('strictly-inwards-for-a-negative-step', 'implies(step < 0, result < self.sma)')]
            + ([] if lin else [('stays-positive-for-steps-above-minus-one',
                                'implies(step > -1, result > 0)')]),
            replay={'call': 'photutils.isophote.geometry:EllipseGeometry.update_sma',
                    'self': 'EllipseGeometry@' + tag, 'approx': True, 'args': ['step']},
            returns='real',
            mutants=[('sma = self.sma + step', 'sma = self.sma - step')] if lin else
                    [('sma = self.sma * (1.0 + step)', 'sma = self.sma * (1.0 - step)'),
                     ('sma = self.sma * (1.0 + step)', 'sma = self.sma * step')],
        ))
        reg.add(Contract(
            target=f'{G}.reset_sma', props=['C20'], kind='method', tag=tag,
            params={'self': 'EllipseGeometry@' + tag, 'step': 'posreal'},
            ensures=[('first-inward-sma-is-strictly-smaller', 'result[0] < self.sma'),
                     ('inward-step-is-negative', 'result[1] < 0'),
                     ('stepping-the-original-sma-inwards-gives-it',
                      f'result[0] == {nxt.replace("step", "result[1]")}'),
                     ('undoes-one-outward-step',
                      f'{nxt.replace("self.sma", "result[0]")} == self.sma')]
            + ([] if lin else [('geometric-inward-step-above-minus-one-and-sma-positive',
                                'result[1] > -1 and result[0] > 0')]),
            replay={'call': 'photutils.isophote.geometry:EllipseGeometry.reset_sma',
                    'self': 'EllipseGeometry@' + tag, 'approx': True, 'args': ['step']},
            mutants=[('step = -step', 'step = step')] if lin else
                    [('step = aux - 1.0', 'step = 1.0 - aux'),
                     ('aux = 1.0 / (1.0 + step)', 'aux = 1.0 / (1.0 - step)')],
        ))
    register_conditions(reg)


def register_conditions(reg):
    """EllipseFitter._check_conditions, the eps = 0 crossing: a negative ellipticity is replaced by
    its absolute value (capped) and the axes are swapped, i.e. the position angle is *rotated* by a
    quarter turn (not mirrored), staying in [0, pi) when it was there; the centre is untouched."""
    Fi = 'photutils/isophote/fitter.py::EllipseFitter'
    reg.record('FitGeometry', {'eps': 'real', 'pa': 'real', 'x0': 'real', 'y0': 'real'})
    reg.record('FitSample', {'gradient_error': 'real', 'gradient_relative_error': 'real',
                             'gradient': 'real', 'geometry': 'FitGeometry',
                             'image': ('arr', 2, 'real')})
    g, o = 'sample.geometry', 'old_sample.geometry'
    reg.add(Contract(
        target=f'{Fi}._check_conditions', props=['C20'], kind='staticmethod',
        params={'sample': 'FitSample', 'maxgerr': 'real', 'going_inwards': 'bool',
                'lexceed': 'bool'},
        requires=[f'0 <= {g}.pa and {g}.pa < pi_()', 'pi_() > 3 and pi_() < 4'],
        ensures=[
            ('eps-crossing-swaps-the-axes-by-a-quarter-turn',
             f'implies({o}.eps < 0, ({g}.pa - {o}.pa == pi_() / 2 or {o}.pa - {g}.pa == pi_() / 2) '
             f'and 0 <= {g}.pa and {g}.pa < pi_())'),
            ('eps-crossing-takes-the-absolute-ellipticity-capped',
             f'implies({o}.eps < 0, {g}.eps == min(-{o}.eps, 0.95))'),
            ('otherwise-the-angle-is-kept', f'implies({o}.eps >= 0, {g}.pa == {o}.pa)'),
            ('exact-circle-made-slightly-flat',
             f'implies({o}.eps == 0, {g}.eps == 0.05) and implies({o}.eps > 0, {g}.eps == {o}.eps)'),
            ('centre-untouched', f'{g}.x0 == {o}.x0 and {g}.y0 == {o}.y0'),
        ],
        mutants=[('sample.geometry.pa += PI2', 'sample.geometry.pa -= PI2'),
                 ('if sample.geometry.pa < PI2:', 'if sample.geometry.pa <= 0:'),
                 ('min(-sample.geometry.eps, MAX_EPS)', 'min(sample.geometry.eps, MAX_EPS)'),
                 ('sample.geometry.eps = MIN_EPS', 'sample.geometry.eps = 0.0')],
    ))
