"""C14: find_peaks selection logic (the block from the local-maximum test to the threshold test).

Given data_max = maximum_filter(data, ...) (external; assumed to be the maximum over the in-image
footprint neighbourhood, which the bounded driver checks), the returned pixel set is exactly

   { p : data(p) == data_max(p), not nan(p), not mask(p), p not within border_width of an edge,
         data(p) > threshold(p) }.
"""
from ..pyvc.contracts import Contract

F = 'photutils/detection/peakfinder.py::find_peaks'


def register(reg):
    register_brightest(reg)
    register_bounds(reg)
    register_finite(reg)
    register_peak_table(reg)
    img = ('arr', 2, 'real', 'nonempty')
    box = '(0, data.shape[0]), (0, data.shape[1])'
    inside = ('j >= border_width[0] and j < data.shape[0] - border_width[0] and '
              'i >= border_width[1] and i < data.shape[1] - border_width[1]')

    def variant(tag, maskspec, bw, thr, extra_pre, clause_mask, clause_border, clause_thr, muts):
        reg.add(Contract(
            target=F, props=['C14'], kind='function', tag=tag,
            block=('peak_goodmask', 'peak_goodmask'), block_like='data == data_max',
            params={'data': img, 'data_max': img, 'nan_mask': ('arr', 2, 'bool', 'nonempty'),
                    'mask': maskspec, 'border_width': bw, 'threshold': thr},
            requires=['data_max.shape == data.shape', 'nan_mask.shape == data.shape'] + extra_pre,
            ensures=[
                ('selected-pixels',
                 'forall(lambda j, i: iff(peak_goodmask[j, i], '
                 'old_data[j, i] == data_max[j, i] and not nan_mask[j, i]'
                 f'{clause_mask}{clause_border}{clause_thr}), {box})'),
                ('shape', 'peak_goodmask.shape == data.shape'),
                ('inputs-unchanged',
                 f'forall(lambda j, i: data[j, i] == old_data[j, i], {box})'),
            ],
            mutants=[('(data == data_max)', '(data >= data_max)'),
                     ('(data > threshold)', '(data >= threshold)'),
                     ('np.logical_and(peak_goodmask, ~nan_mask)',
                      'np.logical_and(peak_goodmask, nan_mask)')] + muts,
        ))
    bmuts = [('peak_goodmask[-ny:, :] = False', 'peak_goodmask[-nx:, :] = False'),
             ('peak_goodmask[:, :nx] = False', 'peak_goodmask[:, :ny] = False'),
             ('peak_goodmask[:, -nx:] = False', 'peak_goodmask[:, -nx - 1:] = False'),
             ('if nx > 0:', 'if nx > 1:')]
    mmuts = [('np.logical_and(peak_goodmask, ~mask)', 'np.logical_and(peak_goodmask, mask)')]
    bwspec = ('tuple', 'nat', 'nat')
    bwpre = ['border_width[0] <= data.shape[0]', 'border_width[1] <= data.shape[1]']
    variant('mask+border+thr2d', ('arr', 2, 'bool', 'nonempty'), bwspec, img,
            ['mask.shape == data.shape', 'threshold.shape == data.shape'] + bwpre,
            ' and not mask[j, i]', f' and ({inside})', ' and old_data[j, i] > threshold[j, i]',
            bmuts + mmuts)
    variant('border+scalar-thr', ('const', None), bwspec, 'real', bwpre,
            '', f' and ({inside})', ' and old_data[j, i] > threshold', bmuts)
    variant('mask+scalar-thr', ('arr', 2, 'bool', 'nonempty'), ('const', None), 'real',
            ['mask.shape == data.shape'], ' and not mask[j, i]', '',
            ' and old_data[j, i] > threshold', mmuts)


def register_brightest(reg):
    """`brightest` keeps the N largest fluxes (all three star finders): the row selection is a
    duplicate-free list of min(N, n) valid rows, sorted by decreasing flux, and no row left out
    is brighter than a row kept.  np.argsort is specified as "a permutation listing the values in
    non-decreasing order" (fluxes are finite here: non-finite rows were filtered before)."""
    for rel, cls in (('photutils/detection/daofinder.py', '_DAOStarFinderCatalog'),
                     ('photutils/detection/irafstarfinder.py', '_IRAFStarFinderCatalog'),
                     ('photutils/detection/starfinder.py', '_StarFinderCatalog')):
        reg.record(cls + 'Rows', {'flux': ('seq', 'real'), 'mag': ('seq', 'real'),
                                  'brightest': 'pos'})
        n = 'len(self.flux)'
        reg.add(Contract(
            target=f'{rel}::{cls}.select_brightest', props=['C14'], kind='method', stmt='idx',
            stmt_like='np.argsort(self.flux)[::-1][:self.brightest]',
            params={'self': cls + 'Rows'},
            requires=[f'len(self.mag) == {n}'],
            ensures=[
                ('keeps-min-N-n-rows',
                 f'len(value) == ite(self.brightest < {n}, self.brightest, {n})'),
                ('valid-distinct-rows',
                 f'forall(lambda k: value[k] >= 0 and value[k] < {n}, (0, len(value))) and '
                 'forall(lambda k, m: implies(k != m, value[k] != value[m]), (0, len(value)), '
                 '(0, len(value)))'),
                ('sorted-by-decreasing-flux',
                 'forall(lambda k, m: implies(k < m, self.flux[value[k]] >= self.flux[value[m]]), '
                 '(0, len(value)), (0, len(value)))'),
                ('no-dropped-row-is-brighter-than-a-kept-row',
                 f'forall(lambda j, k: implies(forall(lambda m: value[m] != j, (0, len(value))), '
                 f'self.flux[j] <= self.flux[value[k]]), (0, {n}), (0, len(value)))'),
            ],
            mutants=[('np.argsort(self.flux)[::-1][:self.brightest]',
                      'np.argsort(self.flux)[:self.brightest]'),
                     ('np.argsort(self.flux)[::-1][:self.brightest]',
                      'np.argsort(self.mag)[:self.brightest]'),
                     ('np.argsort(self.flux)[::-1][:self.brightest]',
                      'np.argsort(self.flux)[::-1][:self.brightest - 1]')],
        ))


def register_bounds(reg):
    """C14 "return only sources whose reported sharpness, roundness and peak satisfy the configured
    bounds (inclusive)": the row mask of apply_filters, per row, from the *reported* attributes of
    the catalog being filtered (DAOStarFinder: both roundness statistics; IRAFStarFinder)."""
    n = 'len(newcat.sharpness)'
    for rel, cls, rounds in (('photutils/detection/daofinder.py', '_DAOStarFinderCatalog',
                              ('roundness1', 'roundness2')),
                             ('photutils/detection/irafstarfinder.py', '_IRAFStarFinderCatalog',
                              ('roundness',))):
        for tag, pk in (('peakmax', 'real'), ('no-peakmax', ('const', None))):
            fields = {'sharpness': ('seq', 'real'), 'peak': ('seq', 'real'), 'sharplo': 'real',
                      'sharphi': 'real', 'roundlo': 'real', 'roundhi': 'real', 'peakmax': pk}
            for r in rounds:
                fields[r] = ('seq', 'real')
            rec = f'{cls}Bounds@{tag}'
            reg.record(rec, fields)
            cond = ('newcat.sharpness[k] >= newcat.sharplo and newcat.sharpness[k] <= newcat.sharphi'
                    + ''.join(f' and newcat.{r}[k] >= newcat.roundlo and newcat.{r}[k] <= '
                              'newcat.roundhi' for r in rounds)
                    + (' and newcat.peak[k] <= newcat.peakmax' if tag == 'peakmax' else ''))
            reg.add(Contract(
                target=f'{rel}::{cls}.apply_filters', props=['C14'], kind='method',
                tag='bounds-' + tag, block=('mask', 'mask', None, 1),
                params={'newcat': rec},
                requires=[f'len(newcat.peak) == {n}'] + [f'len(newcat.{r}) == {n}' for r in rounds],
                ensures=[('one-flag-per-row', f'len(mask) == {n}'),
                         ('kept-iff-the-reported-values-are-within-the-inclusive-bounds',
                          f'forall(lambda k: iff(mask[k], {cond}), (0, {n}))')],
                mutants=[('(newcat.sharpness <= newcat.sharphi)', '(newcat.sharpness < newcat.sharphi)'),
                         (f'(newcat.{rounds[-1]} >= newcat.roundlo)', f'(newcat.{rounds[-1]} >= newcat.roundhi)')]
                + ([('mask &= (newcat.peak <= newcat.peakmax)', 'mask &= (newcat.peak < newcat.peakmax)'),
                    ('mask &= (newcat.peak <= newcat.peakmax)', 'mask |= (newcat.peak <= newcat.peakmax)')]
                   if tag == 'peakmax' else []),
            ))


def register_finite(reg):
    """C14 "finite values": StarFinder's apply_filters keeps a row only if every reported column
    of that row is finite (a non-finite centroid, width, roundness, angle, peak or flux is a
    non-detection) -- the row mask built by the loop over the column names."""
    cols = ('xcentroid', 'ycentroid', 'fwhm', 'roundness', 'pa', 'max_value', 'flux')
    rec = '_StarFinderCatalog@finite'
    reg.record('_StarFinderCatalog', {})
    reg.record(rec, {c: ('arr', 1, 'real', 'nonfinite') for c in cols}, bases=('_StarFinderCatalog',))
    n = 'self.flux.shape[0]'
    reg.add(Contract(
        target='photutils/detection/starfinder.py::_StarFinderCatalog.__len__', props=['C14'],
        kind='method', params={'self': rec}, ensures=[('rows', f'result == {n}')],
        returns='nat', assumed=True,
        note='len(catalog) is the number of rows (all column arrays have that length)',
    ))
    reg.add(Contract(
        target='photutils/detection/starfinder.py::_StarFinderCatalog.apply_filters', props=['C14'],
        kind='method', tag='finite-rows', block=('attrs', 'mask', 1),
        params={'self': rec},
        requires=[f'self.{c}.shape[0] == {n}' for c in cols],
        ensures=[('one-flag-per-row', f'mask.shape == ({n},)'),
                 ('kept-iff-every-reported-column-is-finite',
                  'forall(lambda k: iff(mask[k], '
                  + ' and '.join(f'isfinite_at(self.{c}, k)' for c in cols) + f'), (0, {n}))')],
        mutants=[("'max_value', 'flux')", "'max_value')"),
                 ('mask &= np.isfinite(getattr(self, attr))', 'mask |= np.isfinite(getattr(self, attr))'),
                 ("attrs = ('xcentroid', 'ycentroid', 'fwhm', 'roundness', 'pa',",
                  "attrs = ('xcentroid', 'ycentroid', 'fwhm', 'pa',")],
    ))
    # DAOStarFinder: the same rule over its own columns, except that the flux column (infinite
    # when the effective threshold is 0) is not tested in that case
    dcols = ('xcentroid', 'ycentroid', 'hx', 'hy', 'sharpness', 'roundness1', 'roundness2', 'peak',
             'flux')
    drec = '_DAOStarFinderCatalog@finite'
    reg.record('_DAOStarFinderCatalog', {})
    fields = {c: ('arr', 1, 'real', 'nonfinite') for c in dcols}
    fields['threshold_eff'] = 'real'
    reg.record(drec, fields, bases=('_DAOStarFinderCatalog',))
    reg.add(Contract(
        target='photutils/detection/daofinder.py::_DAOStarFinderCatalog.__len__', props=['C14'],
        kind='method', params={'self': drec}, ensures=[('rows', f'result == {n}')],
        returns='nat', assumed=True,
        note='len(catalog) is the number of rows (all column arrays have that length)',
    ))
    reg.add(Contract(
        target='photutils/detection/daofinder.py::_DAOStarFinderCatalog.apply_filters',
        props=['C14'], kind='method', tag='finite-rows', block=('attrs', 'mask', 1),
        params={'self': drec},
        requires=[f'self.{c}.shape[0] == {n}' for c in dcols],
        ensures=[('one-flag-per-row', f'mask.shape == ({n},)'),
                 ('kept-iff-every-reported-column-is-finite',
                  'forall(lambda k: iff(mask[k], '
                  + ' and '.join(f'isfinite_at(self.{c}, k)' for c in dcols[:-1])
                  + f' and (self.threshold_eff == 0 or isfinite_at(self.flux, k))), (0, {n}))')],
        mutants=[("'roundness1', 'roundness2', 'peak', 'flux')", "'roundness1', 'roundness2', 'flux')"),
                 ("if self.threshold_eff == 0 and attr == 'flux':", "if attr == 'flux':"),
                 ("if self.threshold_eff == 0 and attr == 'flux':", "if self.threshold_eff == 0 and attr == 'peak':")],
    ))
    # IRAFStarFinder: rows that already failed the "more than one non-zero cutout pixel" test stay
    # dropped; of the others a row is kept iff every reported column is finite
    icols = ('xcentroid', 'ycentroid', 'sharpness', 'roundness', 'pa', 'sky', 'peak', 'flux')
    irec = '_IRAFStarFinderCatalog@finite'
    reg.record(irec, {c: ('arr', 1, 'real', 'nonfinite') for c in icols})
    reg.add(Contract(
        target='photutils/detection/irafstarfinder.py::_IRAFStarFinderCatalog.apply_filters',
        props=['C14'], kind='method', tag='finite-rows', block=('attrs', 'mask', 1), block_skip=(1,),
        params={'self': irec, 'mask': ('arr', 1, 'bool')},
        requires=[f'self.{c}.shape[0] == {n}' for c in icols] + [f'mask.shape[0] == {n}'],
        ensures=[('one-flag-per-row', f'mask.shape == ({n},)'),
                 ('kept-iff-kept-before-and-every-reported-column-is-finite',
                  'forall(lambda k: iff(mask[k], old_mask[k] and '
                  + ' and '.join(f'isfinite_at(self.{c}, k)' for c in icols) + f'), (0, {n}))')],
        mutants=[('mask &= np.isfinite(getattr(self, attr))', 'mask |= np.isfinite(getattr(self, attr))'),
                 ('mask &= np.isfinite(getattr(self, attr))', 'mask &= ~np.isfinite(getattr(self, attr))'),
                 ("'sky', 'peak', 'flux')", "'sky', 'peak')")],
    ))



def register_peak_table(reg):
    """find_peaks "x_peak / y_peak / peak_value": the reported coordinates are the (column, row)
    of exactly the candidate pixels and peak_value is the data at that pixel."""
    box = '(0, data.shape[0]), (0, data.shape[1])'
    reg.add(Contract(
        target=F, props=['C14', 'C03'], kind='function', tag='peak-coordinates-and-values',
        block=('y_peaks', 'peak_values', 0),
        params={'data': ('arr', 2, 'real', 'nonempty'), 'peak_goodmask': ('arr', 2, 'bool', 'nonempty')},
        requires=['peak_goodmask.shape == data.shape'],
        ensures=[
            ('one-entry-per-candidate-pixel',
             f'forall(lambda j, i: iff(sel(peak_values, j, i), peak_goodmask[j, i]) and '
             f'iff(sel(x_peaks, j, i), peak_goodmask[j, i]) and '
             f'iff(sel(y_peaks, j, i), peak_goodmask[j, i]), {box})'),
            ('x-is-the-column-y-is-the-row',
             f'forall(lambda j, i: val(x_peaks, j, i) == i and val(y_peaks, j, i) == j, {box})'),
            ('peak-value-is-the-data-at-the-pixel',
             f'forall(lambda j, i: val(peak_values, j, i) == data[j, i], {box})'),
        ],
        mutants=[('y_peaks, x_peaks = peak_goodmask.nonzero()', 'x_peaks, y_peaks = peak_goodmask.nonzero()'),
                 ('peak_values = data[y_peaks, x_peaks]', 'peak_values = data[x_peaks, y_peaks]')],
    ))
