"""C01 (and the C03 translation lemmas): bounding boxes, overlap slices, mask-mode dispatch,
aperture extents.  Post-conditions are written from the property statement."""
from ..pyvc.contracts import Contract

BB = 'photutils/aperture/bounding_box.py::BoundingBox'
BBMOD = 'photutils.aperture.bounding_box:BoundingBox'


def register(reg):
    register_extents(reg)
    register_circular_to_mask(reg)
    register_ell_rect_to_mask(reg)
    register_bbox(reg)
    register_xy_extents(reg)
    register_mask_mode(reg)
    register_edges(reg)
    reg.record('BoundingBox', {'ixmin': 'int', 'ixmax': 'int', 'iymin': 'int', 'iymax': 'int'})

    reg.add(Contract(
        target=f'{BB}.__init__', props=['C01'], kind='method',
        params={'self': ('record', 'BoundingBox', {}), 'ixmin': 'int', 'ixmax': 'int',
                'iymin': 'int', 'iymax': 'int'},
        raises=[('ValueError', 'ixmin > ixmax or iymin > iymax')],
        ensures=[('fields', 'self.ixmin == ixmin and self.ixmax == ixmax and '
                            'self.iymin == iymin and self.iymax == iymax')],
        returns='BoundingBox',
        note='constructor: stores the four integers; integer-type check modelled by sorts',
    ))

    reg.add(Contract(
        target=f'{BB}.from_float', props=['C01', 'C03', 'C02', 'C16'], kind='classmethod',
        params={'xmin': 'real', 'xmax': 'real', 'ymin': 'real', 'ymax': 'real'},
        requires=['xmin <= xmax', 'ymin <= ymax'],
        ensures=[
            # smallest box under the pixel-centre convention, exclusive upper index:
            # pixel i spans [i-1/2, i+1/2]
            ('minimal-xlo', 'result.ixmin - 0.5 <= xmin and xmin < result.ixmin + 0.5'),
            ('minimal-xhi', 'result.ixmax - 1.5 < xmax and xmax <= result.ixmax - 0.5'),
            ('minimal-ylo', 'result.iymin - 0.5 <= ymin and ymin < result.iymin + 0.5'),
            ('minimal-yhi', 'result.iymax - 1.5 < ymax and ymax <= result.iymax - 0.5'),
            ('nonempty', 'implies(xmin < xmax, result.ixmin < result.ixmax) and '
                         'implies(ymin < ymax, result.iymin < result.iymax)'),
        ],
        raises=[],
        returns='BoundingBox',
        replay={'call': f'{BBMOD}.from_float', 'args': ['xmin', 'xmax', 'ymin', 'ymax']},
        mutants=[('math.floor(xmin + 0.5)', 'math.ceil(xmin + 0.5)'),
                 ('math.ceil(xmax + 0.5)', 'math.floor(xmax + 0.5)'),
                 ('math.floor(ymin + 0.5)', 'math.floor(ymin - 0.5)'),
                 ('math.ceil(ymax + 0.5)', 'math.ceil(ymax + 0.5) + 1'),
                 ('cls(ixmin, ixmax, iymin, iymax)', 'cls(iymin, iymax, ixmin, ixmax)')],
    ))

    reg.add(Contract(
        target=f'{BB}.shape', props=['C01'], kind='property',
        params={'self': 'BoundingBox'},
        ensures=[('shape', 'result == (self.iymax - self.iymin, self.ixmax - self.ixmin)')],
        returns=('tuple', 'int', 'int'),
        replay={'call': f'{BBMOD}.shape', 'self': 'BoundingBox', 'args': []},
        mutants=[('self.iymax - self.iymin, self.ixmax - self.ixmin',
                  'self.ixmax - self.ixmin, self.iymax - self.iymin')],
    ))

    reg.add(Contract(
        target=f'{BB}.extent', props=['C01'], kind='property',
        params={'self': 'BoundingBox'},
        ensures=[('edges', 'result == (self.ixmin - 0.5, self.ixmax - 0.5, '
                           'self.iymin - 0.5, self.iymax - 0.5)')],
        returns=('tuple', 'real', 'real', 'real', 'real'),
        replay={'call': f'{BBMOD}.extent', 'self': 'BoundingBox', 'args': []},
    ))

    reg.add(Contract(
        target=f'{BB}.center', props=['C01'], kind='property',
        params={'self': 'BoundingBox'},
        ensures=[('center', 'result[0] * 2 == self.iymin + self.iymax - 1 and '
                            'result[1] * 2 == self.ixmin + self.ixmax - 1')],
        returns=('tuple', 'real', 'real'),
        replay={'call': f'{BBMOD}.center', 'self': 'BoundingBox', 'args': []},
    ))

    # overlap slices: exactly the common pixels; None iff there are none
    inbox = ('self.iymin <= y and y < self.iymax and self.ixmin <= x and x < self.ixmax')
    inimg = ('0 <= y and y < shape[0] and 0 <= x and x < shape[1]')
    reg.add(Contract(
        target=f'{BB}.get_overlap_slices', props=['C01', 'C02', 'C03'], kind='method',
        params={'self': 'BoundingBox', 'shape': ('tuple', 'int', 'int')},
        # aperture boxes are non-empty (from_float/nonempty) and images have >= 1 pixel
        requires=['self.ixmin < self.ixmax', 'self.iymin < self.iymax',
                  'shape[0] >= 1', 'shape[1] >= 1'],
        ensures=[
            ('none-iff-disjoint',
             'iff(result[0] is None, self.ixmin >= shape[1] or self.iymin >= shape[0] '
             'or self.ixmax <= 0 or self.iymax <= 0)'),
            ('both-none', 'iff(result[0] is None, result[1] is None)'),
            ('large-is-intersection',
             'implies(not (result[0] is None), forall(lambda y, x: iff('
             'result[0][0].start <= y and y < result[0][0].stop and '
             'result[0][1].start <= x and x < result[0][1].stop, '
             f'({inbox}) and ({inimg})), None, None))'),
            ('small-is-shifted-large',
             'implies(not (result[0] is None), '
             'result[1][0].start == result[0][0].start - self.iymin and '
             'result[1][0].stop == result[0][0].stop - self.iymin and '
             'result[1][1].start == result[0][1].start - self.ixmin and '
             'result[1][1].stop == result[0][1].stop - self.ixmin)'),
            ('small-inside-box',
             'implies(not (result[0] is None), '
             '0 <= result[1][0].start and result[1][0].start < result[1][0].stop and '
             'result[1][0].stop <= self.iymax - self.iymin and '
             '0 <= result[1][1].start and result[1][1].start < result[1][1].stop and '
             'result[1][1].stop <= self.ixmax - self.ixmin)'),
            ('steps-none',
             'implies(not (result[0] is None), result[0][0].step is None and '
             'result[0][1].step is None and result[1][0].step is None and '
             'result[1][1].step is None)'),
        ],
        returns=('tuple', 'slice2', 'slice2'),
        replay={'call': f'{BBMOD}.get_overlap_slices', 'self': 'BoundingBox',
                'args': ['shape']},
        mutants=[('xmin >= shape[1]', 'xmin > shape[1]'), ('xmax <= 0', 'xmax < 0'),
                 ('slice(max(-ymin, 0),', 'slice(max(ymin, 0),'),
                 ('min(ymax - ymin, shape[0] - ymin)', 'min(ymax - ymin, shape[0] - ymax)'),
                 ('min(xmax, shape[1])', 'min(xmax, shape[1] - 1)'),
                 ('slice(max(xmin, 0), min(xmax, shape[1]))',
                  'slice(max(xmin, 0), min(xmax, shape[0]))')],
    ))

    for meth, lo, hi in (('union', 'min', 'max'),):
        reg.add(Contract(
            target=f'{BB}.union', props=['C01'], kind='method',
            params={'self': 'BoundingBox', 'other': 'BoundingBox'},
            requires=['self.ixmin <= self.ixmax', 'self.iymin <= self.iymax',
                      'other.ixmin <= other.ixmax', 'other.iymin <= other.iymax'],
            ensures=[
                ('contains-both',
                 'result.ixmin <= self.ixmin and result.ixmin <= other.ixmin and '
                 'result.ixmax >= self.ixmax and result.ixmax >= other.ixmax and '
                 'result.iymin <= self.iymin and result.iymin <= other.iymin and '
                 'result.iymax >= self.iymax and result.iymax >= other.iymax'),
                ('smallest',
                 '(result.ixmin == self.ixmin or result.ixmin == other.ixmin) and '
                 '(result.ixmax == self.ixmax or result.ixmax == other.ixmax) and '
                 '(result.iymin == self.iymin or result.iymin == other.iymin) and '
                 '(result.iymax == self.iymax or result.iymax == other.iymax)'),
            ],
            returns='BoundingBox',
            replay={'call': f'{BBMOD}.union', 'self': 'BoundingBox', 'args': ['other'],
                    'argtypes': {'other': 'BoundingBox'}},
            mutants=[('min((self.ixmin, other.ixmin))', 'max((self.ixmin, other.ixmin))'),
                     ('max((self.iymax, other.iymax))', 'max((self.iymax, other.iymin))')],
        ))

    reg.add(Contract(
        target=f'{BB}.intersection', props=['C01'], kind='method',
        params={'self': 'BoundingBox', 'other': 'BoundingBox'},
        requires=['self.ixmin <= self.ixmax', 'self.iymin <= self.iymax',
                  'other.ixmin <= other.ixmax', 'other.iymin <= other.iymax'],
        ensures=[
            ('none-iff-disjoint',
             'iff(result is None, max(self.ixmin, other.ixmin) > min(self.ixmax, other.ixmax) '
             'or max(self.iymin, other.iymin) > min(self.iymax, other.iymax))'),
            ('common-pixels',
             'implies(not (result is None), forall(lambda y, x: iff('
             'result.iymin <= y and y < result.iymax and result.ixmin <= x and x < result.ixmax, '
             'self.iymin <= y and y < self.iymax and self.ixmin <= x and x < self.ixmax and '
             'other.iymin <= y and y < other.iymax and other.ixmin <= x and x < other.ixmax), '
             'None, None))'),
        ],
        returns='BoundingBox',
        replay={'call': f'{BBMOD}.intersection', 'self': 'BoundingBox', 'args': ['other'],
                'argtypes': {'other': 'BoundingBox'}},
        mutants=[('max(self.ixmin, other.ixmin)', 'min(self.ixmin, other.ixmin)'),
                 ('ixmax < ixmin or iymax < iymin', 'ixmax <= ixmin and iymax <= iymin')],
    ))


def register_extents(reg):
    """C01: "the mask's bounding box is the smallest integer pixel box containing the shape".
    from_float is the smallest pixel box containing [xmin, xmax] x [ymin, ymax] (above); here:
    the half extents handed to it are the exact half widths of the rotated shape -- every point
    of the shape lies within them (containment) and a point of the shape attains each of them
    (tightness).  sin / cos are uninterpreted with sin^2 + cos^2 = 1."""
    import z3
    from ..pyvc.values import SObj
    reg.record('Quantity', {'rad': 'real'})
    reg.add(Contract(
        target='astropy/units/quantity.py::Quantity.to', props=['C01'], kind='method',
        params={'self': 'Quantity', 'unit': ('const', 'radian')},
        ensures=[('value', 'result.value == self.rad')],
        returns=('record', 'QuantityValue', {'value': 'real'}), assumed=True,
        note='theta.to(u.radian).value is the angle in radians (astropy.units)',
    ))
    consts = {'u': SObj('module', {'radian': 'radian'})}
    c, s = 'cos_(theta.rad)', 'sin_(theta.rad)'
    E = 'photutils/aperture/ellipse.py::EllipticalMaskMixin._calc_extents'
    inell = (f'sq((p * {c} + q * {s}) / semimajor_axis) + '
             f'sq((-p * {s} + q * {c}) / semiminor_axis) <= 1')
    reg.add(Contract(
        target=E, props=['C01', 'C02', 'C16'], kind='staticmethod',
        params={'semimajor_axis': 'posreal', 'semiminor_axis': 'posreal', 'theta': 'Quantity'},
        consts=consts,
        replay={'call': 'photutils.aperture.ellipse:EllipticalMaskMixin._calc_extents', 'approx': True,
                'args': ['semimajor_axis', 'semiminor_axis', 'theta'],
                'argtypes': {'theta': 'Quantity'}},
        ensures=[
            ('non-negative', 'result[0] >= 0 and result[1] >= 0'),
            ('x-extent-squared', f'sq(result[0]) == sq(semimajor_axis * {c}) + '
                                 f'sq(semiminor_axis * {s})'),
            ('y-extent-squared', f'sq(result[1]) == sq(semimajor_axis * {s}) + '
                                 f'sq(semiminor_axis * {c})'),
        ],
        returns=('tuple', 'real', 'real'),
        mutants=[('semiminor_x = semiminor_axis * -sin_theta', 'semiminor_x = semiminor_axis * cos_theta'),
                 ('y_extent = np.sqrt(semimajor_y**2 + semiminor_y**2)',
                  'y_extent = np.sqrt(semimajor_x**2 + semiminor_y**2)')],
    ))
    # geometric lemmas about the closed form (pure real arithmetic; no code involved): every
    # point (p, q) of the ellipse has |p| <= X and |q| <= Y, and both bounds are attained
    reg.add(Contract(
        target=E, props=['C01', 'C02', 'C16'], kind='staticmethod', tag='contains-ellipse',
        params={'semimajor_axis': 'posreal', 'semiminor_axis': 'posreal', 'theta': 'Quantity'},
        consts=consts, custom=_ellipse_extent_lemmas,
        mutants=[('semimajor_x = semimajor_axis * cos_theta', 'semimajor_x = semiminor_axis * cos_theta'),
                 ('x_extent = np.sqrt(semimajor_x**2 + semiminor_x**2)',
                  'x_extent = np.sqrt(semimajor_x**2 + semiminor_x**2) - 0.25')],
    ))

    R = 'photutils/aperture/rectangle.py::RectangularMaskMixin._calc_extents'
    corner = lambda sx, sy: (f'({sx} * width / 2 * {c} - {sy} * height / 2 * {s})',  # noqa: E731
                             f'({sx} * width / 2 * {s} + {sy} * height / 2 * {c})')
    reg.add(Contract(
        target=R, props=['C01', 'C02', 'C16'], kind='staticmethod',
        params={'width': 'posreal', 'height': 'posreal', 'theta': 'Quantity'},
        consts=consts,
        replay={'call': 'photutils.aperture.rectangle:RectangularMaskMixin._calc_extents', 'approx': True,
                'args': ['width', 'height', 'theta'], 'argtypes': {'theta': 'Quantity'}},
        ensures=[
            # containment of every corner (hence, by convexity, of the rectangle)
            ('contains-corners',
             ' and '.join(f'abs({corner(a, b)[0]}) <= result[0] and abs({corner(a, b)[1]}) <= result[1]'
                          for a in (1, -1) for b in (1, -1))),
            # containment of every point (p, q), |p| <= w/2, |q| <= h/2, of the rectangle
            ('contains-rectangle',
             'forall_real(lambda p, q: implies(abs(p) <= width / 2 and abs(q) <= height / 2, '
             f'abs(p * {c} - q * {s}) <= result[0] and abs(p * {s} + q * {c}) <= result[1]))'),
            # tightness: some corner attains each extent
            ('tight-x', ' or '.join(f'abs({corner(a, b)[0]}) == result[0]'
                                    for a in (1, -1) for b in (1, -1))),
            ('tight-y', ' or '.join(f'abs({corner(a, b)[1]}) == result[1]'
                                    for a in (1, -1) for b in (1, -1))),
        ],
        returns=('tuple', 'real', 'real'),
        mutants=[('x_extent = max(x_extent1, x_extent2)', 'x_extent = min(x_extent1, x_extent2)'),
                 ('y_extent2 = abs((half_width * sin_theta) - (half_height * cos_theta))',
                  'y_extent2 = abs((half_width * cos_theta) - (half_height * sin_theta))'),
                 ('half_height = height / 2.0', 'half_height = height')],
    ))


def _ellipse_extent_lemmas(verifier, c, fdef, consts, tree):
    """Run the real _calc_extents symbolically, then prove containment and tightness of the
    returned extents as real-arithmetic lemmas (nlsat)."""
    import time

    import z3
    from ..common import DISCHARGED, REFUTED, UNKNOWN, Obligation
    from ..pyvc import solve
    from ..pyvc.contracts import make_symbolic
    from ..pyvc.symexec import Executor, State
    st = State()
    ex = Executor(verifier.reg, consts)
    for name, spec in c.params.items():
        st.env[name] = make_symbolic(spec, name, verifier.reg, st)
    a, b = st.env['semimajor_axis'], st.env['semiminor_axis']
    paths = ex.run_function(fdef, st, cls=c.cls)
    base = f'pyvc:{c.key}'
    obs = []
    normal = [(p, oc) for p, oc in paths if oc[0] == 'return']
    cs = ex.eval_cl('cos_(theta.rad)', State(dict(st.env)))
    sn = ex.eval_cl('sin_(theta.rad)', State(dict(st.env)))
    p, q = z3.Real('pt_p'), z3.Real('pt_q')
    goals = []
    for pst, oc in normal:
        X, Y = oc[1]
        hy = pst.hyps() + [sn * sn + cs * cs == 1]
        inside = ((p * cs + q * sn) / a) ** 2 + ((-p * sn + q * cs) / b) ** 2 <= 1
        goals.append(('contains-x', 'every point of the ellipse has |p| <= x_extent', hy + [inside],
                      z3.And(p <= X, -X <= p)))
        goals.append(('contains-y', 'every point of the ellipse has |q| <= y_extent', hy + [inside],
                      z3.And(q <= Y, -Y <= q)))
        # tightness witnesses: the points of tangency with the vertical / horizontal lines
        px, qx = X, (a * a - b * b) * sn * cs / X
        on = lambda u, v: ((u * cs + v * sn) / a) ** 2 + ((-u * sn + v * cs) / b) ** 2 == 1  # noqa: E731
        goals.append(('tight-x', 'the point (X, (a^2-b^2) sin cos / X) lies on the ellipse',
                      hy, on(px, qx)))
        qy, py = Y, (a * a - b * b) * sn * cs / Y
        goals.append(('tight-y', 'the point ((a^2-b^2) sin cos / Y, Y) lies on the ellipse',
                      hy, on(py, qy)))
    for kind, text, hy, goal in goals:
        o = Obligation(f'{base}/lemma:{kind}', c.props[0], 'pyvc', DISCHARGED, text=text)
        t0 = time.time()
        res, model, be = solve.check(list(hy) + [z3.Not(goal)], timeout_s=verifier.timeout_s,
                                     tag=o.oid)
        o.time_s = round(time.time() - t0, 4)
        o.backend = be
        if res == 'sat':
            o.status, o.detail = REFUTED, 'counter-model for the geometric lemma'
        elif res != 'unsat':
            o.status, o.detail = UNKNOWN, 'solver returned unknown'
        obs.append(o)
    cov = Obligation(f'{base}/cover', c.props[0], 'pyvc', DISCHARGED,
                     text='hypotheses of the lemmas are satisfiable (a point inside the ellipse)')
    if not normal or solve.check(goals[0][2], timeout_s=verifier.timeout_s)[0] != 'sat':
        cov.status, cov.detail = 'error', 'vacuous: no normal path or unsatisfiable hypotheses'
    obs.append(cov)
    return obs


def register_bbox(reg):
    P = 'photutils/aperture/core.py::PixelAperture'
    reg.record('PixelAperture', {'_positions': ('arr', 2, 'real'),
                                 '_xy_extents': ('tuple', 'real', 'real')})
    reg.add(Contract(
        target=f'{P}._bbox', props=['C01', 'C02', 'C16'], kind='property',
        params={'self': 'PixelAperture'},
        requires=['self._positions.shape[1] == 2', 'self._xy_extents[0] >= 0',
                  'self._xy_extents[1] >= 0'],
        ensures=[
            ('one-box-per-position', 'len(result) == self._positions.shape[0]'),
            # each box is the smallest pixel box containing centre +- half extents
            ('minimal-box-per-position',
             'forall(lambda i: '
             'result[i].ixmin - 0.5 <= self._positions[i, 0] - self._xy_extents[0] and '
             'self._positions[i, 0] - self._xy_extents[0] < result[i].ixmin + 0.5 and '
             'result[i].ixmax - 1.5 < self._positions[i, 0] + self._xy_extents[0] and '
             'self._positions[i, 0] + self._xy_extents[0] <= result[i].ixmax - 0.5 and '
             'result[i].iymin - 0.5 <= self._positions[i, 1] - self._xy_extents[1] and '
             'self._positions[i, 1] - self._xy_extents[1] < result[i].iymin + 0.5 and '
             'result[i].iymax - 1.5 < self._positions[i, 1] + self._xy_extents[1] and '
             'self._positions[i, 1] + self._xy_extents[1] <= result[i].iymax - 0.5, '
             '(0, self._positions.shape[0]))'),
        ],
        mutants=[('ymin = self._positions[:, 1] - y_delta', 'ymin = self._positions[:, 1] - x_delta'),
                 ('xmax = self._positions[:, 0] + x_delta', 'xmax = self._positions[:, 0] - x_delta'),
                 ('BoundingBox.from_float(x0, x1, y0, y1)', 'BoundingBox.from_float(y0, y1, x0, x1)')],
    ))


def register_xy_extents(reg):
    """The half extents each aperture class hands to _bbox: the (outer) shape's own extents."""
    from ..pyvc.values import SObj
    consts = {'u': SObj('module', {'radian': 'radian'})}
    c, s = 'cos_(self.theta.rad)', 'sin_(self.theta.rad)'
    for cls, fields, (A, B) in (
            ('EllipticalAperture', ('a', 'b'), ('a', 'b')),
            ('EllipticalAnnulus', ('a_in', 'a_out', 'b_in', 'b_out'), ('a_out', 'b_out'))):
        reg.record(cls, {**{f: 'posreal' for f in fields}, 'theta': 'Quantity'},
                   bases=['EllipticalMaskMixin'])
        reg.add(Contract(
            target=f'photutils/aperture/ellipse.py::{cls}._xy_extents', props=['C01', 'C02', 'C16'],
            kind='property', params={'self': cls}, consts=consts,
            requires=['self.a_in < self.a_out', 'self.b_in < self.b_out'] if 'a_in' in fields else [],
            ensures=[('outer-ellipse-extents',
                      f'result[0] >= 0 and result[1] >= 0 and '
                      f'sq(result[0]) == sq(self.{A} * {c}) + sq(self.{B} * {s}) and '
                      f'sq(result[1]) == sq(self.{A} * {s}) + sq(self.{B} * {c})')],
            mutants=[(f'self.{A}, self.{B}, self.theta', f'self.{B}, self.{A}, self.theta')]
            + ([('self.a_out, self.b_out', 'self.a_in, self.b_in')] if 'a_in' in fields else []),
        ))
    for cls, fields, (W, H) in (
            ('RectangularAperture', ('w', 'h'), ('w', 'h')),
            ('RectangularAnnulus', ('w_in', 'w_out', 'h_in', 'h_out'), ('w_out', 'h_out'))):
        reg.record(cls, {**{f: 'posreal' for f in fields}, 'theta': 'Quantity'},
                   bases=['RectangularMaskMixin'])
        corner = lambda sx, sy: (  # noqa: E731
            f'abs({sx} * self.{W} / 2 * {c} - {sy} * self.{H} / 2 * {s})',
            f'abs({sx} * self.{W} / 2 * {s} + {sy} * self.{H} / 2 * {c})')
        reg.add(Contract(
            target=f'photutils/aperture/rectangle.py::{cls}._xy_extents', props=['C01', 'C02', 'C16'],
            kind='property', params={'self': cls}, consts=consts,
            requires=['self.w_in < self.w_out', 'self.h_in < self.h_out'] if 'w_in' in fields else [],
            ensures=[('outer-rectangle-extents',
                      ' and '.join(f'{corner(a, b)[0]} <= result[0] and {corner(a, b)[1]} <= result[1]'
                                   for a in (1, -1) for b in (1, -1)) + ' and (' +
                      ' or '.join(f'{corner(a, b)[0]} == result[0]' for a in (1, -1) for b in (1, -1))
                      + ') and (' +
                      ' or '.join(f'{corner(a, b)[1]} == result[1]' for a in (1, -1) for b in (1, -1))
                      + ')')],
            mutants=[(f'self.{W}, self.{H}, self.theta', f'self.{H}, self.{W}, self.theta')]
            + ([('self.w_out, self.h_out', 'self.w_in, self.h_in')] if 'w_in' in fields else []),
        ))
    for cls, R in (('CircularAperture', 'r'), ('CircularAnnulus', 'r_out')):
        fields = {'r': 'posreal', 'x': 'real', 'y': 'real'} if R == 'r' \
            else {'r_in': 'posreal', 'r_out': 'posreal'}
        reg.record(cls, fields)
        reg.add(Contract(
            target=f'photutils/aperture/circle.py::{cls}._xy_extents', props=['C01', 'C02', 'C16'],
            kind='property', params={'self': cls},
            requires=['self.r_in < self.r_out'] if R != 'r' else [],
            ensures=[('outer-radius', f'result == (self.{R}, self.{R})'),
                     ('contains-disc',
                      f'forall_real(lambda p, q: implies(sq(p) + sq(q) <= sq(self.{R}), '
                      f'abs(p) <= result[0] and abs(q) <= result[1]))')],
            mutants=[(f'return self.{R}, self.{R}', f'return self.{R} / 2, self.{R}')]
            + ([('return self.r_out, self.r_out', 'return self.r_in, self.r_in')] if R != 'r' else []),
        ))


def register_mask_mode(reg):
    """How the documented methods map onto the kernels' (use_exact, subpixels) arguments:
    'center' = one sample per pixel, 'subpixel' = subpixels^2 samples, 'exact' = analytic overlap
    (rectangles: the documented 32 x 32 subsampling)."""
    T = 'photutils/aperture/core.py::PixelAperture._translate_mask_mode'
    for rect in (False, True):
        reg.add(Contract(
            target=T, props=['C01', 'C02', 'C16'], kind='staticmethod', tag=f'rectangle={rect}',
            params={'mode': 'str', 'subpixels': 'int', 'rectangle': ('const', rect)},
            cases={'mode': ['center', 'subpixel', 'exact']},
            replay={'call': 'photutils.aperture.core:PixelAperture._translate_mask_mode',
                    'args': ['mode', 'subpixels', 'rectangle'], 'const': {'rectangle': rect}},
            raises=[('ValueError', "mode == 'subpixel' and subpixels <= 0")],
            ensures=[('center', "implies(mode == 'center', result == (0, 1))"),
                     ('subpixel', "implies(mode == 'subpixel', result == (0, subpixels))"),
                     ('exact', "implies(mode == 'exact', result == "
                               + ('(0, 32))' if rect else '(1, 1))'))],
            mutants=([('subpixels = 32', 'subpixels = 16')] if rect else []) + [
                     ("if mode == 'center':\n            use_exact = 0\n            subpixels = 1",
                      "if mode == 'center':\n            use_exact = 0\n            subpixels = 2"),
                     ('subpixels <= 0', 'subpixels < 0')],
        ))


def register_edges(reg):
    """The pixel edges handed to the overlap kernels: the bounding box's outer edges (pixel i spans
    [i - 1/2, i + 1/2]) relative to the aperture centre, one tuple per position."""
    P = 'photutils/aperture/core.py::PixelAperture'
    reg.record('PixelApertureEdges', {'_positions': ('arr', 2, 'real'),
                                      '_bbox': ('seq', 'BoundingBox')})
    reg.add(Contract(
        target=f'{P}._centered_edges', props=['C01', 'C02', 'C16'], kind='property',
        params={'self': 'PixelApertureEdges'},
        requires=['self._positions.shape[1] == 2', 'len(self._bbox) == self._positions.shape[0]'],
        ensures=[
            ('one-tuple-per-position', 'len(result) == self._positions.shape[0]'),
            ('box-edges-relative-to-the-centre',
             'forall(lambda k: result[k] == ('
             'self._bbox[k].ixmin - 0.5 - self._positions[k, 0], '
             'self._bbox[k].ixmax - 0.5 - self._positions[k, 0], '
             'self._bbox[k].iymin - 0.5 - self._positions[k, 1], '
             'self._bbox[k].iymax - 0.5 - self._positions[k, 1]), (0, len(result)))'),
        ],
        mutants=[('ymin = bbox.iymin - 0.5 - position[1]', 'ymin = bbox.iymin - 0.5 - position[0]'),
                 ('xmax = bbox.ixmax - 0.5 - position[0]', 'xmax = bbox.ixmax + 0.5 - position[0]'),
                 ('edges.append((xmin, xmax, ymin, ymax))', 'edges.append((ymin, ymax, xmin, xmax))')],
    ))


def register_circular_to_mask(reg):
    """C01 "circular-annulus weights ... equal the covered fraction": per position, the mask is
    the kernel's grid for the outer (or only) radius minus -- for an annulus -- the kernel's grid
    for the inner radius *evaluated on the same pixel grid* (same edges, nx, ny, method).
    cgrid_ names pixel (j, i) of circular_overlap_grid(xmin, xmax, ymin, ymax, nx, ny, r,
    use_exact, subpixels); what the compiled kernel computes is the business of the bounded C01
    driver."""
    K = 'photutils/geometry/circular_overlap.pyx::circular_overlap_grid'
    a = 'xmin, xmax, ymin, ymax, nx, ny, r, use_exact, subpixels'
    reg.add(Contract(
        target=K, props=['C01'],
        params={'xmin': 'real', 'xmax': 'real', 'ymin': 'real', 'ymax': 'real', 'nx': 'pos',
                'ny': 'pos', 'r': 'real', 'use_exact': 'int', 'subpixels': 'int'},
        ensures=[('shape', 'result.shape == (ny, nx)'),
                 ('names-the-grid', f'forall(lambda j, i: result[j, i] == cgrid_(j, i, {a}), '
                                    '(0, ny), (0, nx))')],
        returns=('arr', 2, 'real'), assumed=True,
        note='cgrid_ names the output of the compiled kernel circular_overlap_grid (assumed: a '
             'fresh (ny, nx) float array)',
    ))
    M_ = 'photutils/aperture/circle.py::CircularMaskMixin'
    e = 'edges[0], edges[1], edges[2], edges[3], bbox.shape[1], bbox.shape[0]'
    for tag, fields, rad, inner in (('aperture', {'r': 'posreal'}, 'self.r', None),
                                    ('annulus', {'r_in': 'posreal', 'r_out': 'posreal'},
                                     'self.r_out', 'self.r_in')):
        rec = 'CircularMaskMixin@' + tag
        reg.record(rec, fields)
        outer = f'cgrid_(j, i, {e}, radius, use_exact, subpixels)'
        expect = outer if inner is None else \
            f'{outer} - cgrid_(j, i, {e}, {inner}, use_exact, subpixels)'
        reg.add(Contract(
            target=f'{M_}.to_mask', props=['C01', 'C02', 'C16', 'C19'], kind='method',
            tag='grid-' + tag, block=('ny', 'mask'),
            params={'self': rec, 'bbox': ('record', 'BBoxShape', {'shape': ('tuple', 'pos', 'pos')}),
                    'edges': ('tuple', 'real', 'real', 'real', 'real'), 'radius': 'real',
                    'use_exact': 'int', 'subpixels': 'int'},
            requires=[f'radius == {rad}'],
            ensures=[('shape', 'mask.shape == bbox.shape'),
                     ('kernel-grid-of-the-outer-radius-minus-that-of-the-inner-on-the-same-pixels',
                      f'forall(lambda j, i: mask[j, i] == {expect}, (0, bbox.shape[0]), '
                      '(0, bbox.shape[1]))')],
            mutants=[('ny, nx = bbox.shape', 'nx, ny = bbox.shape')]
            + ([("                                              edges[3], nx, ny, self.r_in,",
                 "                                              edges[3], nx, ny, self.r_out,"),
                ('mask -= circular_overlap_grid(edges[0], edges[1], edges[2],',
                 'mask += circular_overlap_grid(edges[0], edges[1], edges[2],')] if inner else []),
        ))


def register_ell_rect_to_mask(reg):
    """The same data-flow statement for elliptical and rectangular apertures and annuli: outer
    kernel grid minus inner kernel grid on the same pixels, both with the aperture's own axes /
    sides, the angle in radians and the translated method (rectangles: use_exact = 0)."""
    from ..pyvc.values import SObj
    consts = {'u': SObj('module', {'radian': 'radian'})}
    e = 'edges[0], edges[1], edges[2], edges[3], bbox.shape[1], bbox.shape[0]'
    for (kname, kfile, ufn, mixin, mfile, single, ann, mode) in (
            ('elliptical_overlap_grid', 'photutils/geometry/elliptical_overlap.pyx', 'egrid_',
             'EllipticalMaskMixin', 'photutils/aperture/ellipse.py', ('a', 'b'),
             ('a_in', 'b_in', 'a_out', 'b_out'), 'use_exact'),
            ('rectangular_overlap_grid', 'photutils/geometry/rectangular_overlap.pyx', 'rgrid_',
             'RectangularMaskMixin', 'photutils/aperture/rectangle.py', ('w', 'h'),
             ('w_in', 'h_in', 'w_out', 'h_out'), '0')):
        p1, p2 = ('rx', 'ry') if ufn == 'egrid_' else ('width', 'height')
        a = f'xmin, xmax, ymin, ymax, nx, ny, {p1}, {p2}, theta, use_exact, subpixels'
        reg.add(Contract(
            target=f'{kfile}::{kname}', props=['C01'],
            params={'xmin': 'real', 'xmax': 'real', 'ymin': 'real', 'ymax': 'real', 'nx': 'pos',
                    'ny': 'pos', p1: 'real', p2: 'real', 'theta': 'real', 'use_exact': 'int',
                    'subpixels': 'int'},
            ensures=[('shape', 'result.shape == (ny, nx)'),
                     ('names-the-grid', f'forall(lambda j, i: result[j, i] == {ufn}(j, i, {a}), '
                                        '(0, ny), (0, nx))')],
            returns=('arr', 2, 'real'), assumed=True,
            note=f'{ufn} names the output of the compiled kernel {kname} (assumed: a fresh '
                 '(ny, nx) float array)',
        ))
        loc = ('a', 'b') if ufn == 'egrid_' else ('w', 'h')
        for tag, flds, inner in (('aperture', single, None), ('annulus', ann, ann[:2])):
            rec = f'{mixin}@{tag}'
            reg.record(rec, {**{f: 'posreal' for f in flds}, 'theta': 'Quantity'})
            outer_axes = single if inner is None else ann[2:]
            outer = (f'{ufn}(j, i, {e}, {loc[0]}, {loc[1]}, self.theta.rad, {mode}, subpixels)')
            expect = outer if inner is None else \
                (f'{outer} - {ufn}(j, i, {e}, self.{inner[0]}, self.{inner[1]}, self.theta.rad, '
                 f'{mode}, subpixels)')
            muts = [('ny, nx = bbox.shape', 'nx, ny = bbox.shape')]
            if inner:
                muts.append((f'self.{inner[0]},', f'self.{ann[2]},'))
            reg.add(Contract(
                target=f'{mfile}::{mixin}.to_mask', props=['C01', 'C02', 'C16'], kind='method',
                tag='grid-' + tag, block=('ny', 'mask'), consts=consts,
                params={'self': rec, 'bbox': ('record', 'BBoxShape', {'shape': ('tuple', 'pos', 'pos')}),
                        'edges': ('tuple', 'real', 'real', 'real', 'real'), loc[0]: 'real',
                        loc[1]: 'real', 'use_exact': 'int', 'subpixels': 'int'},
                requires=[f'{loc[0]} == self.{outer_axes[0]}', f'{loc[1]} == self.{outer_axes[1]}'],
                ensures=[('shape', 'mask.shape == bbox.shape'),
                         ('outer-kernel-grid-minus-inner-on-the-same-pixels',
                          f'forall(lambda j, i: mask[j, i] == {expect}, (0, bbox.shape[0]), '
                          '(0, bbox.shape[1]))')],
                mutants=muts,
            ))
