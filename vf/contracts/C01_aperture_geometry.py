"""C01 (and the C03 translation lemmas): bounding boxes, overlap slices, mask-mode dispatch,
aperture extents.  Post-conditions are written from the property statement."""
from ..pyvc.contracts import Contract

BB = 'photutils/aperture/bounding_box.py::BoundingBox'
BBMOD = 'photutils.aperture.bounding_box:BoundingBox'


def register(reg):
    reg.record('BoundingBox', {'ixmin': 'int', 'ixmax': 'int', 'iymin': 'int', 'iymax': 'int'})

    reg.add(Contract(
        target=f'{BB}.__init__', props=['C01'], kind='method',
        params={'self': ('record', 'BoundingBox', {}), 'ixmin': 'int', 'ixmax': 'int',
                'iymin': 'int', 'iymax': 'int'},
        raises=[('ValueError', 'ixmin > ixmax or iymin > iymax')],
        ensures=[('fields', 'self.ixmin == ixmin and self.ixmax == ixmax and '
                            'self.iymin == iymin and self.iymax == iymax')],
        returns='BoundingBox',
        note='constructor: stores the four integers; integer-type check modelled by sorts',
    ))

    reg.add(Contract(
        target=f'{BB}.from_float', props=['C01', 'C03'], kind='classmethod',
        params={'xmin': 'real', 'xmax': 'real', 'ymin': 'real', 'ymax': 'real'},
        requires=['xmin <= xmax', 'ymin <= ymax'],
        ensures=[
            # smallest box under the pixel-centre convention, exclusive upper index:
            # pixel i spans [i-1/2, i+1/2]
            ('minimal-xlo', 'result.ixmin - 0.5 <= xmin and xmin < result.ixmin + 0.5'),
            ('minimal-xhi', 'result.ixmax - 1.5 < xmax and xmax <= result.ixmax - 0.5'),
            ('minimal-ylo', 'result.iymin - 0.5 <= ymin and ymin < result.iymin + 0.5'),
            ('minimal-yhi', 'result.iymax - 1.5 < ymax and ymax <= result.iymax - 0.5'),
            ('nonempty', 'implies(xmin < xmax, result.ixmin < result.ixmax) and '
                         'implies(ymin < ymax, result.iymin < result.iymax)'),
        ],
        raises=[],
        returns='BoundingBox',
        replay={'call': f'{BBMOD}.from_float', 'args': ['xmin', 'xmax', 'ymin', 'ymax']},
        mutants=[('math.floor(xmin + 0.5)', 'math.ceil(xmin + 0.5)'),
                 ('math.ceil(xmax + 0.5)', 'math.floor(xmax + 0.5)'),
                 ('math.floor(ymin + 0.5)', 'math.floor(ymin - 0.5)'),
                 ('math.ceil(ymax + 0.5)', 'math.ceil(ymax + 0.5) + 1'),
                 ('cls(ixmin, ixmax, iymin, iymax)', 'cls(iymin, iymax, ixmin, ixmax)')],
    ))

    reg.add(Contract(
        target=f'{BB}.shape', props=['C01'], kind='property',
        params={'self': 'BoundingBox'},
        ensures=[('shape', 'result == (self.iymax - self.iymin, self.ixmax - self.ixmin)')],
        returns=('tuple', 'int', 'int'),
        replay={'call': f'{BBMOD}.shape', 'self': 'BoundingBox', 'args': []},
        mutants=[('self.iymax - self.iymin, self.ixmax - self.ixmin',
                  'self.ixmax - self.ixmin, self.iymax - self.iymin')],
    ))

    reg.add(Contract(
        target=f'{BB}.extent', props=['C01'], kind='property',
        params={'self': 'BoundingBox'},
        ensures=[('edges', 'result == (self.ixmin - 0.5, self.ixmax - 0.5, '
                           'self.iymin - 0.5, self.iymax - 0.5)')],
        returns=('tuple', 'real', 'real', 'real', 'real'),
        replay={'call': f'{BBMOD}.extent', 'self': 'BoundingBox', 'args': []},
    ))

    reg.add(Contract(
        target=f'{BB}.center', props=['C01'], kind='property',
        params={'self': 'BoundingBox'},
        ensures=[('center', 'result[0] * 2 == self.iymin + self.iymax - 1 and '
                            'result[1] * 2 == self.ixmin + self.ixmax - 1')],
        returns=('tuple', 'real', 'real'),
        replay={'call': f'{BBMOD}.center', 'self': 'BoundingBox', 'args': []},
    ))

    # overlap slices: exactly the common pixels; None iff there are none
    inbox = ('self.iymin <= y and y < self.iymax and self.ixmin <= x and x < self.ixmax')
    inimg = ('0 <= y and y < shape[0] and 0 <= x and x < shape[1]')
    reg.add(Contract(
        target=f'{BB}.get_overlap_slices', props=['C01', 'C02', 'C03'], kind='method',
        params={'self': 'BoundingBox', 'shape': ('tuple', 'int', 'int')},
        # aperture boxes are non-empty (from_float/nonempty) and images have >= 1 pixel
        requires=['self.ixmin < self.ixmax', 'self.iymin < self.iymax',
                  'shape[0] >= 1', 'shape[1] >= 1'],
        ensures=[
            ('none-iff-disjoint',
             'iff(result[0] is None, self.ixmin >= shape[1] or self.iymin >= shape[0] '
             'or self.ixmax <= 0 or self.iymax <= 0)'),
            ('both-none', 'iff(result[0] is None, result[1] is None)'),
            ('large-is-intersection',
             'implies(not (result[0] is None), forall(lambda y, x: iff('
             'result[0][0].start <= y and y < result[0][0].stop and '
             'result[0][1].start <= x and x < result[0][1].stop, '
             f'({inbox}) and ({inimg})), None, None))'),
            ('small-is-shifted-large',
             'implies(not (result[0] is None), '
             'result[1][0].start == result[0][0].start - self.iymin and '
             'result[1][0].stop == result[0][0].stop - self.iymin and '
             'result[1][1].start == result[0][1].start - self.ixmin and '
             'result[1][1].stop == result[0][1].stop - self.ixmin)'),
            ('small-inside-box',
             'implies(not (result[0] is None), '
             '0 <= result[1][0].start and result[1][0].start < result[1][0].stop and '
             'result[1][0].stop <= self.iymax - self.iymin and '
             '0 <= result[1][1].start and result[1][1].start < result[1][1].stop and '
             'result[1][1].stop <= self.ixmax - self.ixmin)'),
            ('steps-none',
             'implies(not (result[0] is None), result[0][0].step is None and '
             'result[0][1].step is None and result[1][0].step is None and '
             'result[1][1].step is None)'),
        ],
        returns=('tuple', 'slice2', 'slice2'),
        replay={'call': f'{BBMOD}.get_overlap_slices', 'self': 'BoundingBox',
                'args': ['shape']},
        mutants=[('xmin >= shape[1]', 'xmin > shape[1]'), ('xmax <= 0', 'xmax < 0'),
                 ('slice(max(-ymin, 0),', 'slice(max(ymin, 0),'),
                 ('min(ymax - ymin, shape[0] - ymin)', 'min(ymax - ymin, shape[0] - ymax)'),
                 ('min(xmax, shape[1])', 'min(xmax, shape[1] - 1)'),
                 ('slice(max(xmin, 0), min(xmax, shape[1]))',
                  'slice(max(xmin, 0), min(xmax, shape[0]))')],
    ))

    for meth, lo, hi in (('union', 'min', 'max'),):
        reg.add(Contract(
            target=f'{BB}.union', props=['C01'], kind='method',
            params={'self': 'BoundingBox', 'other': 'BoundingBox'},
            requires=['self.ixmin <= self.ixmax', 'self.iymin <= self.iymax',
                      'other.ixmin <= other.ixmax', 'other.iymin <= other.iymax'],
            ensures=[
                ('contains-both',
                 'result.ixmin <= self.ixmin and result.ixmin <= other.ixmin and '
                 'result.ixmax >= self.ixmax and result.ixmax >= other.ixmax and '
                 'result.iymin <= self.iymin and result.iymin <= other.iymin and '
                 'result.iymax >= self.iymax and result.iymax >= other.iymax'),
                ('smallest',
                 '(result.ixmin == self.ixmin or result.ixmin == other.ixmin) and '
                 '(result.ixmax == self.ixmax or result.ixmax == other.ixmax) and '
                 '(result.iymin == self.iymin or result.iymin == other.iymin) and '
                 '(result.iymax == self.iymax or result.iymax == other.iymax)'),
            ],
            returns='BoundingBox',
            replay={'call': f'{BBMOD}.union', 'self': 'BoundingBox', 'args': ['other'],
                    'argtypes': {'other': 'BoundingBox'}},
            mutants=[('min((self.ixmin, other.ixmin))', 'max((self.ixmin, other.ixmin))'),
                     ('max((self.iymax, other.iymax))', 'max((self.iymax, other.iymin))')],
        ))

    reg.add(Contract(
        target=f'{BB}.intersection', props=['C01'], kind='method',
        params={'self': 'BoundingBox', 'other': 'BoundingBox'},
        requires=['self.ixmin <= self.ixmax', 'self.iymin <= self.iymax',
                  'other.ixmin <= other.ixmax', 'other.iymin <= other.iymax'],
        ensures=[
            ('none-iff-disjoint',
             'iff(result is None, max(self.ixmin, other.ixmin) > min(self.ixmax, other.ixmax) '
             'or max(self.iymin, other.iymin) > min(self.iymax, other.iymax))'),
            ('common-pixels',
             'implies(not (result is None), forall(lambda y, x: iff('
             'result.iymin <= y and y < result.iymax and result.ixmin <= x and x < result.ixmax, '
             'self.iymin <= y and y < self.iymax and self.ixmin <= x and x < self.ixmax and '
             'other.iymin <= y and y < other.iymax and other.ixmin <= x and x < other.ixmax), '
             'None, None))'),
        ],
        returns='BoundingBox',
        replay={'call': f'{BBMOD}.intersection', 'self': 'BoundingBox', 'args': ['other'],
                'argtypes': {'other': 'BoundingBox'}},
        mutants=[('max(self.ixmin, other.ixmin)', 'min(self.ixmin, other.ixmin)'),
                 ('ixmax < ixmin or iymax < iymin', 'ixmax <= ixmin and iymax <= iymin')],
    ))
