"""C12: PSF-photometry bookkeeping that is mask / index arithmetic."""
from ..pyvc.contracts import Contract

P = 'photutils/psf/photometry.py::PSFPhotometry'


def register(reg):
    register_fit_window(reg)
    # result(p) = mask(p) or not finite(image(p)); None iff no mask was given and all finite
    reg.add(Contract(
        target=f'{P}._make_mask', props=['C12'], kind='staticmethod', tag='mask-given',
        params={'image': ('arr', 2, 'real', 'nonfinite', 'nonempty'),
                'mask': ('arr', 2, 'bool', 'nonempty')},
        requires=['image.shape == mask.shape'],
        ensures=[
            ('total-mask',
             'forall(lambda y, x: iff(result[y, x], mask[y, x] or not isfinite_at(image, y, x)), '
             '(0, image.shape[0]), (0, image.shape[1]))'),
            ('shape', 'result.shape == image.shape'),
        ],
        note='np.isfinite is an uninterpreted per-pixel predicate; warnings are no-ops',
        mutants=[('finite_mask |= mask', 'finite_mask &= mask'),
                 ('            mask = finite_mask  # input mask plus non-finite pixels\n', ''),
                 ('~np.isfinite(image)', 'np.isfinite(image)')],
    ))
    reg.add(Contract(
        target=f'{P}._make_mask', props=['C12'], kind='staticmethod', tag='no-mask',
        params={'image': ('arr', 2, 'real', 'nonfinite', 'nonempty'), 'mask': ('const', None)},
        ensures=[
            ('none-iff-all-finite',
             'iff(result is None, forall(lambda y, x: isfinite_at(image, y, x), '
             '(0, image.shape[0]), (0, image.shape[1])))'),
            ('total-mask',
             'implies(not (result is None), forall(lambda y, x: iff(result[y, x], '
             'not isfinite_at(image, y, x)), (0, image.shape[0]), (0, image.shape[1])))'),
        ],
        mutants=[('~np.isfinite(image)', 'np.isfinite(image)')],
    ))


def register_fit_window(reg):
    """_define_fit_data, per source: the fit window is the fit_shape box centred on the initial
    position, clipped to the image (through the verified _overlap_slices contract); the pixels
    handed to the fitter are exactly the unmasked pixels of that window with their own coordinates,
    the fitted values are the data there minus the source's local background, and npixfit is their
    number -- "npixfit ... reflect the mask [and] edges"."""
    my = 'ceil(ycen - self.fit_shape[0] / 2)'
    mx = 'ceil(xcen - self.fit_shape[1] / 2)'
    reg.record('PSFPhotometry@fit-window', {'fit_shape': ('tuple', 'pos', 'pos')})
    box = '(0, slc_lg[0].stop - slc_lg[0].start), (0, slc_lg[1].stop - slc_lg[1].start)'
    for tag, mspec, mreq in (('mask', ('arr', 2, 'bool', 'nonempty'), ['mask.shape == data.shape']),
                             ('no-mask', ('const', None), [])):
        sel = ('not mask[j + slc_lg[0].start, i + slc_lg[1].start]' if mreq else 'True')
        reg.add(Contract(
            target=f'{P}._define_fit_data', props=['C12'], kind='method', tag='window-' + tag,
            block=('slc_lg', 'npixfit'),
            params={'self': 'PSFPhotometry@fit-window',
                    'data': ('arr', 2, 'real', 'nonfinite', 'nonempty'), 'mask': mspec,
                    'xcen': 'real', 'ycen': 'real', 'row': ('dict', {'local_bkg': 'real'}),
                    'xi': ('const', []), 'yi': ('const', []), 'cutout': ('const', []),
                    'npixfit': ('const', [])},
            requires=mreq + ['0 <= xcen and xcen <= data.shape[1] - 1',
                             '0 <= ycen and ycen <= data.shape[0] - 1'],
            ensures=[
                ('window-is-the-fit-box-clipped-to-the-image',
                 f'slc_lg[0].start == max(0, {my}) and slc_lg[0].stop == min(data.shape[0], {my} + '
                 f'self.fit_shape[0]) and slc_lg[1].start == max(0, {mx}) and slc_lg[1].stop == '
                 f'min(data.shape[1], {mx} + self.fit_shape[1])'),
                ('fitted-pixels-are-the-unmasked-window-pixels',
                 f'forall(lambda j, i: iff(sel(xi[0], j, i), {sel}) and iff(sel(yi[0], j, i), {sel}) '
                 f'and iff(sel(cutout[0], j, i), {sel}), {box})'),
                ('with-their-own-coordinates',
                 'forall(lambda j, i: val(xi[0], j, i) == i + slc_lg[1].start and '
                 f'val(yi[0], j, i) == j + slc_lg[0].start, {box})'),
                ('fitted-values-are-data-minus-local-background',
                 'forall(lambda j, i: val(cutout[0], j, i) == data[j + slc_lg[0].start, '
                 f'i + slc_lg[1].start] - row["local_bkg"], {box})'),
                ('npixfit-counts-them',
                 'len(npixfit) == 1 and npixfit[0] == ' + (
                     'np.count_nonzero(~mask[slc_lg])' if mreq else
                     '(slc_lg[0].stop - slc_lg[0].start) * (slc_lg[1].stop - slc_lg[1].start)')),
            ],
            mutants=[('(ycen, xcen), mode', '(xcen, ycen), mode'),
                     ('cutout.append(data[yy, xx] - local_bkg)', 'cutout.append(data[xx, yy] - local_bkg)'),
                     ('cutout.append(data[yy, xx] - local_bkg)', 'cutout.append(data[yy, xx])'),
                     ('npixfit.append(len(xx))', 'npixfit.append(len(xx) + 1)')]
            + ([('inv_mask = ~mask[yy, xx]', 'inv_mask = ~mask[xx, yy]'),
                ('xx = xx[inv_mask]', 'xx = xx[~inv_mask]')] if mreq else []),
        ))
