"""C12: PSF-photometry bookkeeping that is mask / index arithmetic."""
from ..pyvc.contracts import Contract

P = 'photutils/psf/photometry.py::PSFPhotometry'


def register(reg):
    # result(p) = mask(p) or not finite(image(p)); None iff no mask was given and all finite
    reg.add(Contract(
        target=f'{P}._make_mask', props=['C12'], kind='staticmethod', tag='mask-given',
        params={'image': ('arr', 2, 'real', 'nonfinite', 'nonempty'),
                'mask': ('arr', 2, 'bool', 'nonempty')},
        requires=['image.shape == mask.shape'],
        ensures=[
            ('total-mask',
             'forall(lambda y, x: iff(result[y, x], mask[y, x] or not isfinite_at(image, y, x)), '
             '(0, image.shape[0]), (0, image.shape[1]))'),
            ('shape', 'result.shape == image.shape'),
        ],
        note='np.isfinite is an uninterpreted per-pixel predicate; warnings are no-ops',
        mutants=[('finite_mask |= mask', 'finite_mask &= mask'),
                 ('            mask = finite_mask  # input mask plus non-finite pixels\n', ''),
                 ('~np.isfinite(image)', 'np.isfinite(image)')],
    ))
    reg.add(Contract(
        target=f'{P}._make_mask', props=['C12'], kind='staticmethod', tag='no-mask',
        params={'image': ('arr', 2, 'real', 'nonfinite', 'nonempty'), 'mask': ('const', None)},
        ensures=[
            ('none-iff-all-finite',
             'iff(result is None, forall(lambda y, x: isfinite_at(image, y, x), '
             '(0, image.shape[0]), (0, image.shape[1])))'),
            ('total-mask',
             'implies(not (result is None), forall(lambda y, x: iff(result[y, x], '
             'not isfinite_at(image, y, x)), (0, image.shape[0]), (0, image.shape[1])))'),
        ],
        mutants=[('~np.isfinite(image)', 'np.isfinite(image)')],
    ))
