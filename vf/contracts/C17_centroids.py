"""C17 -- centroid_com "equals the intensity-weighted mean pixel coordinate of the unmasked finite
pixels ... and ignores masked pixels' values": which pixel values enter the moment sums."""
from ..pyvc.contracts import Contract

C = 'photutils/centroids/core.py::'


def register(reg):
    box = '(0, data.shape[0]), (0, data.shape[1])'
    for tag, mspec, mreq, mcl in (
            ('mask', ('arr', 2, 'bool'), ['mask.shape == old_data.shape'], 'mask[i, j] or '),
            ('nomask', None, [], '')):
        reg.add(Contract(
            target=C + 'centroid_com', props=['C17'], block=('data', 'data'), tag=f'weights-{tag}',
            params={'data': ('arr', 2, 'real', 'nonfinite'), 'mask': mspec},
            requires=[r.replace('old_data', 'data') for r in mreq],
            ensures=[
                ('shape', 'data.shape == old_data.shape'),
                ('masked-and-nonfinite-pixels-weigh-zero-others-their-value',
                 f'forall(lambda i, j: isfinite_at(data, i, j) and data[i, j] == ite({mcl}'
                 f'not isfinite_at(old_data, i, j), 0, old_data[i, j]), {box})'),
                ('input-untouched',
                 f'forall(lambda i, j: data_input[i, j] == old_data[i, j] and '
                 f'iff(isfinite_at(data_input, i, j), isfinite_at(old_data, i, j)), {box})'),
            ],
            mutants=[('data[badmask] = 0.0', 'data[badmask] = 1.0'),
                     ('badmask = ~np.isfinite(data)', 'badmask = np.isfinite(data)'),
                     ('data = data.copy()', 'data = data')]
            + ([('data[mask] = 0.0', 'data[~mask] = 0.0')] if mspec else []),
        ))
