"""C17 -- centroid_com "equals the intensity-weighted mean pixel coordinate of the unmasked finite
pixels ... and ignores masked pixels' values": which pixel values enter the moment sums."""
from ..pyvc.contracts import Contract

C = 'photutils/centroids/core.py::'


def register(reg):
    box = '(0, data.shape[0]), (0, data.shape[1])'
    for tag, mspec, mreq, mcl in (
            ('mask', ('arr', 2, 'bool'), ['mask.shape == old_data.shape'], 'mask[i, j] or '),
            ('nomask', None, [], '')):
        reg.add(Contract(
            target=C + 'centroid_com', props=['C17'], block=('data', 'data'), tag=f'weights-{tag}',
            params={'data': ('arr', 2, 'real', 'nonfinite'), 'mask': mspec},
            requires=[r.replace('old_data', 'data') for r in mreq],
            ensures=[
                ('shape', 'data.shape == old_data.shape'),
                ('masked-and-nonfinite-pixels-weigh-zero-others-their-value',
                 f'forall(lambda i, j: isfinite_at(data, i, j) and data[i, j] == ite({mcl}'
                 f'not isfinite_at(old_data, i, j), 0, old_data[i, j]), {box})'),
                ('input-untouched',
                 f'forall(lambda i, j: data_input[i, j] == old_data[i, j] and '
                 f'iff(isfinite_at(data_input, i, j), isfinite_at(old_data, i, j)), {box})'),
            ],
            mutants=[('data[badmask] = 0.0', 'data[badmask] = 1.0'),
                     ('badmask = ~np.isfinite(data)', 'badmask = np.isfinite(data)'),
                     ('data = data.copy()', 'data = data')]
            + ([('data[mask] = 0.0', 'data[~mask] = 0.0')] if mspec else []),
        ))

    # ---- centroid_sources "acts per source": the cutouts handed to the centroid function for one
    # source are the data / mask / error under *that source's* box (slices_large), the footprint
    # under slices_small, and a peak hint shifted into cutout coordinates
    L0, L1 = 'slices_large[0].start', 'slices_large[1].start'
    S0, S1 = 'slices_small[0].start', 'slices_small[1].start'
    cbox = ('(0, slices_large[0].stop - slices_large[0].start), '
            '(0, slices_large[1].stop - slices_large[1].start)')
    # the box itself is derived inside the block from the verified _overlap_slices contract (the
    # positions were range-checked against the image earlier in the function)
    pre = ['0 <= xp and xp <= data.shape[1] - 1', '0 <= yp and yp <= data.shape[0] - 1']
    my = 'ceil(yp - footprint.shape[0] / 2)'
    mx = 'ceil(xp - footprint.shape[1] / 2)'
    for tag, mspec, kwspec in (
            ('mask+error+peak', ('arr', 2, 'bool'),
             {'error': ('arr', 2, 'real'), 'xpeak': 'real', 'ypeak': 'real'}),
            ('mask', ('arr', 2, 'bool'), {}),
            ('nomask+error', None, {'error': ('arr', 2, 'real')})):
        req = list(pre)
        ens = [
            ('box-centred-on-this-source',
             f'{L0} == max(0, {my}) and slices_large[0].stop == min(data.shape[0], {my} + '
             f'footprint.shape[0]) and {L1} == max(0, {mx}) and slices_large[1].stop == '
             f'min(data.shape[1], {mx} + footprint.shape[1])'),
            ('footprint-window-aligned',
             f'{S0} == max(0, -{my}) and {S1} == max(0, -{mx})'),
            ('data-cutout', 'data_cutout.shape == (slices_large[0].stop - slices_large[0].start, '
                            'slices_large[1].stop - slices_large[1].start) and '
                            f'forall(lambda j, i: data_cutout[j, i] == data[j + {L0}, i + {L1}], '
                            f'{cbox})'),
            ('mask-cutout', 'forall(lambda j, i: iff(mask_cutout[j, i], '
                            + (f'mask[j + {L0}, i + {L1}] or ' if mspec else '')
                            + f'not footprint[j + {S0}, i + {S1}]), {cbox})'),
            ('mask-keyword', 'forall(lambda j, i: iff(centroid_kwargs["mask"][j, i], '
                             f'mask_cutout[j, i]), {cbox})'),
            ('caller-kwargs-untouched',
             'len(func_kwargs) == %d and "mask" not in func_kwargs' % len(kwspec)),
        ]
        if mspec:
            req += ['mask.shape == data.shape']
        if 'error' in kwspec:
            req += ['func_kwargs["error"].shape == data.shape']
            ens.append(('error-cutout',
                        'forall(lambda j, i: centroid_kwargs["error"][j, i] == '
                        f'func_kwargs["error"][j + {L0}, i + {L1}], {cbox})'))
        if 'xpeak' in kwspec:
            ens.append(('peak-hint-in-cutout-coordinates',
                        f'centroid_kwargs["xpeak"] == func_kwargs["xpeak"] - {L1} and '
                        f'centroid_kwargs["ypeak"] == func_kwargs["ypeak"] - {L0}'))
        reg.add(Contract(
            target=C + 'centroid_sources', props=['C17', 'C03'], tag='cutouts-' + tag,
            block=('slices_large', 'centroid_kwargs'),
            params={'data': ('arr', 2, 'real', 'nonfinite', 'nonempty'), 'mask': mspec,
                    'footprint': ('arr', 2, 'bool', 'nonempty'), 'xp': 'real', 'yp': 'real',
                    'func_kwargs': ('dict', kwspec)},
            requires=req, ensures=ens,
            mutants=[('footprint.shape, (yp, xp))', 'footprint.shape, (xp, yp))'),
                     ('overlap_slices(data.shape,', 'overlap_slices(footprint.shape,'),
                     ('data[slices_large]', 'data[slices_small]'),
                     ('footprint_mask[slices_small]', 'footprint_mask[slices_large]')]
            + ([('mask[slices_large]', 'mask[slices_small]'),
                ('np.logical_or(mask[slices_large], footprint_mask)',
                 'np.logical_and(mask[slices_large], footprint_mask)')] if mspec else [])
            + ([('error[slices_large]', 'error[slices_small]')] if 'error' in kwspec else [])
            + ([('xpeak - slices_large[1].start', 'xpeak - slices_large[0].start'),
                ('ypeak - slices_large[0].start', 'ypeak + slices_large[0].start')]
               if 'xpeak' in kwspec else []),
        ))
    register_quadratic(reg)
    register_round(reg)


def register_quadratic(reg):
    """centroid_quadratic: (1) the fitting box, after the shift that compensates clipping at an
    image edge, has the full requested size, lies inside the image and contains the peak pixel;
    (2) the returned position is the stationary point of the fitted polynomial
    c0 + c10 x + c01 y + c11 xy + c20 x^2 + c02 y^2 (so a source that *is* such a polynomial is
    located exactly, whatever the least-squares solver returns being its coefficients)."""
    hx, hy = '(fit_boxsize[1] - 1) / 2', '(fit_boxsize[0] - 1) / 2'
    reg.add(Contract(
        target=C + 'centroid_quadratic', props=['C17'], tag='fit-box',
        block=('slc_data', 'yidx0', None, 1),
        params={'data': ('arr', 2, 'real', 'nonfinite', 'nonempty'),
                'fit_boxsize': ('tuple', 'pos', 'pos'), 'nx': 'pos', 'ny': 'pos', 'xidx': 'int',
                'yidx': 'int'},
        requires=[
            'data.shape == (ny, nx)',
            'fit_boxsize[0] % 2 == 1 and fit_boxsize[1] % 2 == 1',
            'fit_boxsize[0] <= ny and fit_boxsize[1] <= nx',
            '1 <= xidx and xidx <= nx - 2 and 1 <= yidx and yidx <= ny - 2'],
        ensures=[
            ('full-size', 'xidx1 - xidx0 == fit_boxsize[1] and yidx1 - yidx0 == fit_boxsize[0]'),
            ('inside-the-image', '0 <= xidx0 and xidx1 <= nx and 0 <= yidx0 and yidx1 <= ny'),
            ('contains-the-peak-pixel',
             'xidx0 <= xidx and xidx < xidx1 and yidx0 <= yidx and yidx < yidx1'),
        ],
        note='the clipped window comes from the verified _overlap_slices contract (over the assumed '
             'astropy.nddata.overlap_slices window)',
        mutants=[("overlap_slices(data.shape, fit_boxsize, (yidx, xidx),", "overlap_slices(data.shape, fit_boxsize, (xidx, yidx),"),
                 ('xidx1 = min(nx, xidx0 + fit_boxsize[1])', 'xidx1 = min(nx, xidx0 + fit_boxsize[0])'),
                 ('xidx0 = max(0, xidx1 - fit_boxsize[1])', 'xidx0 = max(0, xidx1 - fit_boxsize[1] + 1)'),
                 ('if yidx0 == 0:', 'if yidx0 == 1:'),
                 ('yidx0 = max(0, yidx1 - fit_boxsize[0])', 'yidx0 = max(0, yidx1 - fit_boxsize[1])')],
    ))
    reg.add(Contract(
        target=C + 'centroid_quadratic', props=['C17'], tag='stationary-point',
        block=('c10', 'ym'),
        params={'c': ('tuple', 'real', 'real', 'real', 'real', 'real', 'real')},
        ensures=[
            ('gradient-vanishes-in-x', 'c[1] + c[3] * ym + 2 * c[4] * xm == 0'),
            ('gradient-vanishes-in-y', 'c[2] + c[3] * xm + 2 * c[5] * ym == 0'),
            ('a-maximum', '4 * c[4] * c[5] - c[3] * c[3] > 0 and c[4] < 0 and c[5] < 0'),
        ],
        mutants=[('xm = (c01 * c11 - 2.0 * c02 * c10) / det', 'xm = (c01 * c11 - 2.0 * c20 * c10) / det'),
                 ('ym = (c10 * c11 - 2.0 * c20 * c01) / det', 'ym = (c10 * c11 + 2.0 * c20 * c01) / det'),
                 ('det = 4 * c20 * c02 - c11**2', 'det = 4 * c20 * c02 + c11**2'),
                 ('_, c10, c01, c11, c20, c02 = c', '_, c01, c10, c11, c20, c02 = c')],
    ))


def register_round(reg):
    """py2intround "the pixel containing the position": round to nearest, ties away from zero --
    n with n - 1/2 <= a < n + 1/2 for a >= 0 and n - 1/2 < a <= n + 1/2 for a < 0 (the start pixel
    of centroid_quadratic for a given xpeak / ypeak, and the star finders' xycoords)."""
    R = 'photutils/utils/_round.py::py2intround'
    for tag, req, spec in (
            ('non-negative', 'a >= 0', 'result - 1 / 2 <= a and a < result + 1 / 2'),
            ('negative', 'a < 0', 'result - 1 / 2 < a and a <= result + 1 / 2')):
        reg.add(Contract(
            target=R, props=['C17', 'C14'], tag=tag,
            params={'a': 'real'},
            requires=[req],
            replay={'call': 'photutils.utils._round:py2intround', 'args': ['a']},
            ensures=[('nearest-integer-ties-away-from-zero', f'is_int(result) and {spec}')],
            mutants=([('np.floor(data + 0.5)', 'np.floor(data)'),
                      ('np.floor(data + 0.5)', 'np.ceil(data - 0.5)')] if tag == 'non-negative' else
                     [('np.ceil(data - 0.5)', 'np.floor(data - 0.5)'),
                      ('np.ceil(data - 0.5)', 'np.floor(data + 0.5)')])
            + [('data >= 0', 'data > 1') if tag == 'non-negative' else ('data >= 0', 'data >= -1')],
        ))
