"""C17 -- centroid_com "equals the intensity-weighted mean pixel coordinate of the unmasked finite
pixels ... and ignores masked pixels' values": which pixel values enter the moment sums."""
from ..pyvc.contracts import Contract

C = 'photutils/centroids/core.py::'


def register(reg):
    box = '(0, data.shape[0]), (0, data.shape[1])'
    for tag, mspec, mreq, mcl in (
            ('mask', ('arr', 2, 'bool'), ['mask.shape == old_data.shape'], 'mask[i, j] or '),
            ('nomask', None, [], '')):
        reg.add(Contract(
            target=C + 'centroid_com', props=['C17'], block=('data', 'data'), tag=f'weights-{tag}',
            params={'data': ('arr', 2, 'real', 'nonfinite'), 'mask': mspec},
            requires=[r.replace('old_data', 'data') for r in mreq],
            ensures=[
                ('shape', 'data.shape == old_data.shape'),
                ('masked-and-nonfinite-pixels-weigh-zero-others-their-value',
                 f'forall(lambda i, j: isfinite_at(data, i, j) and data[i, j] == ite({mcl}'
                 f'not isfinite_at(old_data, i, j), 0, old_data[i, j]), {box})'),
                ('input-untouched',
                 f'forall(lambda i, j: data_input[i, j] == old_data[i, j] and '
                 f'iff(isfinite_at(data_input, i, j), isfinite_at(old_data, i, j)), {box})'),
            ],
            mutants=[('data[badmask] = 0.0', 'data[badmask] = 1.0'),
                     ('badmask = ~np.isfinite(data)', 'badmask = np.isfinite(data)'),
                     ('data = data.copy()', 'data = data')]
            + ([('data[mask] = 0.0', 'data[~mask] = 0.0')] if mspec else []),
        ))

    # ---- centroid_sources "acts per source": the cutouts handed to the centroid function for one
    # source are the data / mask / error under *that source's* box (slices_large), the footprint
    # under slices_small, and a peak hint shifted into cutout coordinates
    L0, L1 = 'slices_large[0].start', 'slices_large[1].start'
    S0, S1 = 'slices_small[0].start', 'slices_small[1].start'
    cbox = ('(0, slices_large[0].stop - slices_large[0].start), '
            '(0, slices_large[1].stop - slices_large[1].start)')
    pre = [f'0 <= {L0}', f'{L0} < slices_large[0].stop', 'slices_large[0].stop <= data.shape[0]',
           f'0 <= {L1}', f'{L1} < slices_large[1].stop', 'slices_large[1].stop <= data.shape[1]',
           f'0 <= {S0}', f'0 <= {S1}',
           f'slices_small[0].stop - {S0} == slices_large[0].stop - {L0}',
           f'slices_small[1].stop - {S1} == slices_large[1].stop - {L1}',
           'slices_small[0].stop <= footprint.shape[0]',
           'slices_small[1].stop <= footprint.shape[1]']
    for tag, mspec, kwspec in (
            ('mask+error+peak', ('arr', 2, 'bool'),
             {'error': ('arr', 2, 'real'), 'xpeak': 'real', 'ypeak': 'real'}),
            ('mask', ('arr', 2, 'bool'), {}),
            ('nomask+error', None, {'error': ('arr', 2, 'real')})):
        req = list(pre)
        ens = [
            ('data-cutout', 'data_cutout.shape == (slices_large[0].stop - slices_large[0].start, '
                            'slices_large[1].stop - slices_large[1].start) and '
                            f'forall(lambda j, i: data_cutout[j, i] == data[j + {L0}, i + {L1}], '
                            f'{cbox})'),
            ('mask-cutout', 'forall(lambda j, i: iff(mask_cutout[j, i], '
                            + (f'mask[j + {L0}, i + {L1}] or ' if mspec else '')
                            + f'not footprint[j + {S0}, i + {S1}]), {cbox})'),
            ('mask-keyword', 'forall(lambda j, i: iff(centroid_kwargs["mask"][j, i], '
                             f'mask_cutout[j, i]), {cbox})'),
            ('caller-kwargs-untouched',
             'len(func_kwargs) == %d and "mask" not in func_kwargs' % len(kwspec)),
        ]
        if mspec:
            req += ['mask.shape == data.shape']
        if 'error' in kwspec:
            req += ['func_kwargs["error"].shape == data.shape']
            ens.append(('error-cutout',
                        'forall(lambda j, i: centroid_kwargs["error"][j, i] == '
                        f'func_kwargs["error"][j + {L0}, i + {L1}], {cbox})'))
        if 'xpeak' in kwspec:
            ens.append(('peak-hint-in-cutout-coordinates',
                        f'centroid_kwargs["xpeak"] == func_kwargs["xpeak"] - {L1} and '
                        f'centroid_kwargs["ypeak"] == func_kwargs["ypeak"] - {L0}'))
        reg.add(Contract(
            target=C + 'centroid_sources', props=['C17', 'C03'], tag='cutouts-' + tag,
            block=('data_cutout', 'centroid_kwargs'),
            params={'data': ('arr', 2, 'real', 'nonfinite'), 'mask': mspec,
                    'footprint': ('arr', 2, 'bool'), 'slices_large': 'slice2',
                    'slices_small': 'slice2', 'func_kwargs': ('dict', kwspec)},
            requires=req, ensures=ens,
            mutants=[('data[slices_large]', 'data[slices_small]'),
                     ('footprint_mask[slices_small]', 'footprint_mask[slices_large]')]
            + ([('mask[slices_large]', 'mask[slices_small]'),
                ('np.logical_or(mask[slices_large], footprint_mask)',
                 'np.logical_and(mask[slices_large], footprint_mask)')] if mspec else [])
            + ([('error[slices_large]', 'error[slices_small]')] if 'error' in kwspec else [])
            + ([('xpeak - slices_large[1].start', 'xpeak - slices_large[0].start'),
                ('ypeak - slices_large[0].start', 'ypeak + slices_large[0].start')]
               if 'xpeak' in kwspec else []),
        ))
