"""C18 -- "make_residual_image(data) equals data minus that model image": the array branch of
ModelImageMixin.make_residual_image, against an assumed contract for make_model_image.

modelimg_(j, i, b) names pixel (j, i) of what make_model_image returns for this object with
include_localbkg == b (what that image *is* -- the superposition of the fitted models -- is the
business of the bounded C18 driver; here only the data flow around it is proved): the residual is
computed for the same shape, psf_shape and include_localbkg, subtracted from the data pixel by
pixel, in the order data - model.
"""
from ..pyvc.contracts import Contract

M = 'photutils/psf/photometry.py::ModelImageMixin'


def register(reg):
    reg.record('ModelImageMixin', {})
    reg.add(Contract(
        target=f'{M}.make_model_image', props=['C18'], kind='method',
        params={'self': 'ModelImageMixin', 'shape': ('tuple', 'nat', 'nat'),
                'psf_shape': ('opt', ('tuple', 'pos', 'pos')), 'include_localbkg': 'bool'},
        defaults={'psf_shape': None, 'include_localbkg': False},
        ensures=[('shape', 'result.shape == shape'),
                 ('names-the-model-image',
                  'forall(lambda j, i: result[j, i] == modelimg_(j, i, code_psf_(psf_shape), '
                  'ite(include_localbkg, 1, 0)), (0, shape[0]), (0, shape[1]))')],
        returns=('arr', 2, 'real'), assumed=True,
        note='modelimg_ names the pixels of ModelImageMixin.make_model_image for a given '
             'psf_shape and include_localbkg (assumed: a fresh float array of the requested shape)',
    ))
    for tag, pspec in (('psf-shape', ('tuple', 'pos', 'pos')), ('model-bbox', ('const', None))):
        reg.add(Contract(
            target=f'{M}.make_residual_image', props=['C18'], kind='method', tag=tag,
            params={'self': 'ModelImageMixin', 'data': ('arr', 2, 'real', 'nonfinite', 'anydtype'),
                    'psf_shape': pspec, 'include_localbkg': 'bool'},
            ensures=[('shape', 'result.shape == data.shape'),
                     ('data-minus-model',
                      'forall(lambda j, i: result[j, i] == data[j, i] - modelimg_(j, i, '
                      'code_psf_(psf_shape), ite(include_localbkg, 1, 0)), '
                      '(0, data.shape[0]), (0, data.shape[1]))'),
                     ('nonfinite-data-stays-nonfinite',
                      'forall(lambda j, i: iff(isfinite_at(result, j, i), '
                      'isfinite_at(data, j, i)), (0, data.shape[0]), (0, data.shape[1]))')],
            mutants=[('np.subtract(data, residual, out=residual)',
                      'np.subtract(residual, data, out=residual)'),
                     ('np.subtract(data, residual, out=residual)',
                      'np.add(data, residual, out=residual)'),
                     ('include_localbkg=include_localbkg)\n            np.subtract',
                      'include_localbkg=False)\n            np.subtract')]
            + ([('self.make_model_image(data.shape, psf_shape=psf_shape,',
                 'self.make_model_image(data.shape, psf_shape=None,')] if tag == 'psf-shape' else []),
        ))
