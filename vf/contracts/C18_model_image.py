"""C18 -- "make_residual_image(data) equals data minus that model image": the array branch of
ModelImageMixin.make_residual_image, against an assumed contract for make_model_image.

modelimg_(j, i, b) names pixel (j, i) of what make_model_image returns for this object with
include_localbkg == b (what that image *is* -- the superposition of the fitted models -- is the
business of the bounded C18 driver; here only the data flow around it is proved): the residual is
computed for the same shape, psf_shape and include_localbkg, subtracted from the data pixel by
pixel, in the order data - model.
"""
from ..pyvc.contracts import Contract

M = 'photutils/psf/photometry.py::ModelImageMixin'


def register(reg):
    reg.record('ModelImageMixin', {})
    reg.add(Contract(
        target=f'{M}.make_model_image', props=['C18'], kind='method',
        params={'self': 'ModelImageMixin', 'shape': ('tuple', 'nat', 'nat'),
                'psf_shape': ('opt', ('tuple', 'pos', 'pos')), 'include_localbkg': 'bool'},
        defaults={'psf_shape': None, 'include_localbkg': False},
        ensures=[('shape', 'result.shape == shape'),
                 ('names-the-model-image',
                  'forall(lambda j, i: result[j, i] == modelimg_(j, i, code_psf_(psf_shape), '
                  'ite(include_localbkg, 1, 0)), (0, shape[0]), (0, shape[1]))')],
        returns=('arr', 2, 'real'), assumed=True,
        note='modelimg_ names the pixels of ModelImageMixin.make_model_image for a given '
             'psf_shape and include_localbkg (assumed: a fresh float array of the requested shape)',
    ))
    for tag, pspec in (('psf-shape', ('tuple', 'pos', 'pos')), ('model-bbox', ('const', None))):
        reg.add(Contract(
            target=f'{M}.make_residual_image', props=['C18'], kind='method', tag=tag,
            params={'self': 'ModelImageMixin', 'data': ('arr', 2, 'real', 'nonfinite', 'anydtype'),
                    'psf_shape': pspec, 'include_localbkg': 'bool'},
            ensures=[('shape', 'result.shape == data.shape'),
                     ('data-minus-model',
                      'forall(lambda j, i: result[j, i] == data[j, i] - modelimg_(j, i, '
                      'code_psf_(psf_shape), ite(include_localbkg, 1, 0)), '
                      '(0, data.shape[0]), (0, data.shape[1]))'),
                     ('nonfinite-data-stays-nonfinite',
                      'forall(lambda j, i: iff(isfinite_at(result, j, i), '
                      'isfinite_at(data, j, i)), (0, data.shape[0]), (0, data.shape[1]))')],
            mutants=[('np.subtract(data, residual, out=residual)',
                      'np.subtract(residual, data, out=residual)'),
                     ('np.subtract(data, residual, out=residual)',
                      'np.add(data, residual, out=residual)'),
                     ('include_localbkg=include_localbkg)\n            np.subtract',
                      'include_localbkg=False)\n            np.subtract')]
            + ([('self.make_model_image(data.shape, psf_shape=psf_shape,',
                 'self.make_model_image(data.shape, psf_shape=None,')] if tag == 'psf-shape' else []),
        ))
    register_row(reg)


def register_row(reg):
    """C18 "rendered model images are exact superpositions": what one row of the table adds to the
    image (discretize_method='center').  Inside the row's window -- the overlap of its box with
    the image -- pixel (j, i) grows by the model evaluated at x = i, y = j plus that row's local
    background; every pixel outside the window keeps its value.  modelval_(x, y) names the model
    with the row's parameters set (an opaque elementwise function here)."""
    I = 'photutils/datasets/images.py::'
    win = ('j >= slc_lg[0].start and j < slc_lg[0].stop and i >= slc_lg[1].start and '
           'i < slc_lg[1].stop')
    box = '(0, shape[0]), (0, shape[1])'
    reg.add(Contract(
        target=I + 'make_model_image', props=['C18'], tag='one-row', block=('slc_lg', 'image'),
        params={'shape': ('tuple', 'pos', 'pos'), 'mod_shape': ('tuple', 'pos', 'pos'),
                'y0': 'real', 'x0': 'real', 'discretize_method': ('const', 'center'),
                'model': ('ufunc', 'modelval', 2), 'image': ('arr', 2, 'real'),
                'local_bkg': ('seq', 'real'), 'i': 'nat'},
        requires=['image.shape == shape', 'i < len(local_bkg)'],
        ensures=[
            ('window-is-the-rows-box-clipped-to-the-image',
             'slc_lg[0].start == max(0, ceil(y0 - mod_shape[0] / 2)) and '
             'slc_lg[0].stop == min(shape[0], ceil(y0 - mod_shape[0] / 2) + mod_shape[0]) and '
             'slc_lg[1].start == max(0, ceil(x0 - mod_shape[1] / 2)) and '
             'slc_lg[1].stop == min(shape[1], ceil(x0 - mod_shape[1] / 2) + mod_shape[1])'),
            ('inside-the-window-model-at-the-pixel-plus-the-rows-background',
             f'forall(lambda j, i_: implies({win.replace(" i ", " i_ ").replace("i >=", "i_ >=").replace("and i <", "and i_ <")}, '
             'image[j, i_] == old_image[j, i_] + modelval_(i_, j) + local_bkg[i]), ' + box + ')'),
            ('outside-the-window-untouched',
             f'forall(lambda j, i_: implies(not ({win.replace("i >=", "i_ >=").replace("and i <", "and i_ <")}), '
             'image[j, i_] == old_image[j, i_]), ' + box + ')'),
        ],
        mutants=[('(y0, x0), mode', '(x0, y0), mode'),
                 ('overlap_slices(shape, mod_shape,', 'overlap_slices(shape, mod_shape[::-1],'),
                 ('subimg = model(xx, yy)', 'subimg = model(yy, xx)'),
                 ('image[slc_lg] += subimg + local_bkg[i]', 'image[slc_lg] = subimg + local_bkg[i]'),
                 ('image[slc_lg] += subimg + local_bkg[i]', 'image[slc_lg] += subimg'),
                 ('yy, xx = np.mgrid[slc_lg]', 'xx, yy = np.mgrid[slc_lg]')],
    ))
