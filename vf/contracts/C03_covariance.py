"""C03 -- covariance under integer translation and axis transposition: relational (two-run)
contracts on the index arithmetic every listed API goes through.  The real function body is
executed twice by self-composition (vf/pyvc/vcgen.py::_verify_relational)."""
from ..pyvc.contracts import Contract

BB = 'photutils/aperture/bounding_box.py::BoundingBox'
BBMOD = 'photutils.aperture.bounding_box:BoundingBox'


def register(reg):
    fl = {'xmin': 'real', 'xmax': 'real', 'ymin': 'real', 'ymax': 'real'}
    reg.add(Contract(
        target=f'{BB}.from_float', props=['C03'], kind='classmethod', tag='translate',
        params=dict(fl), requires=['xmin <= xmax', 'ymin <= ymax'],
        relate={'extra': {'dx': 'int', 'dy': 'int'},
                'second': {'xmin': 'xmin + dx', 'xmax': 'xmax + dx', 'ymin': 'ymin + dy',
                           'ymax': 'ymax + dy'}},
        ensures=[('shifts-by-offset',
                  'result2.ixmin == result.ixmin + dx and result2.ixmax == result.ixmax + dx and '
                  'result2.iymin == result.iymin + dy and result2.iymax == result.iymax + dy')],
        replay={'call': f'{BBMOD}.from_float', 'args': ['xmin', 'xmax', 'ymin', 'ymax']},
        mutants=[('math.floor(xmin + 0.5)', 'int(xmin + 0.5)'),
                 ('math.ceil(ymax + 0.5)', 'int(ymax + 1.5)')],
    ))
    reg.add(Contract(
        target=f'{BB}.from_float', props=['C03'], kind='classmethod', tag='transpose',
        params=dict(fl), requires=['xmin <= xmax', 'ymin <= ymax'],
        relate={'second': {'xmin': 'ymin', 'xmax': 'ymax', 'ymin': 'xmin', 'ymax': 'xmax'}},
        ensures=[('swaps-axes',
                  'result2.ixmin == result.iymin and result2.ixmax == result.iymax and '
                  'result2.iymin == result.ixmin and result2.iymax == result.ixmax')],
        replay={'call': f'{BBMOD}.from_float', 'args': ['xmin', 'xmax', 'ymin', 'ymax']},
        mutants=[('math.floor(ymin + 0.5)', 'math.ceil(ymin - 0.5)')],
    ))

    # get_overlap_slices: a box inside the original frame, embedded at (dx, dy) >= 0 in a canvas
    # that contains the shifted frame: image slices shift by the offset, mask slices unchanged
    box = {'self': 'BoundingBox', 'shape': ('tuple', 'int', 'int')}
    nonempty = ['self.ixmin < self.ixmax', 'self.iymin < self.iymax', 'shape[0] >= 1',
                'shape[1] >= 1']
    reg.add(Contract(
        target=f'{BB}.get_overlap_slices', props=['C03'], kind='method', tag='translate',
        params=dict(box),
        requires=nonempty,
        relate={'extra': {'dx': 'nat', 'dy': 'nat', 'px': 'nat', 'py': 'nat'},
                'second': {'self': 'record_("BoundingBox", ixmin=self.ixmin + dx, ixmax=self.ixmax + dx, '
                                   'iymin=self.iymin + dy, iymax=self.iymax + dy)',
                           'shape': '(shape[0] + dy + py, shape[1] + dx + px)'}},
        ensures=[('image-slices-shift-mask-slices-fixed',
                  # footprint inside the original frame
                  'implies(self.ixmin >= 0 and self.iymin >= 0 and self.ixmax <= shape[1] and '
                  'self.iymax <= shape[0], '
                  'not (result[0] is None) and not (result2[0] is None) and '
                  'result2[0][0].start == result[0][0].start + dy and '
                  'result2[0][0].stop == result[0][0].stop + dy and '
                  'result2[0][1].start == result[0][1].start + dx and '
                  'result2[0][1].stop == result[0][1].stop + dx and '
                  'result2[1][0].start == result[1][0].start and '
                  'result2[1][0].stop == result[1][0].stop and '
                  'result2[1][1].start == result[1][1].start and '
                  'result2[1][1].stop == result[1][1].stop)'),
                 # a box partly off the original frame: the part inside the frame still maps
                 # to the shifted pixels (the canvas only adds pixels outside the frame)
                 ('common-pixels-contain-shifted-ones',
                  'implies(not (result[0] is None), not (result2[0] is None) and '
                  'result2[0][0].start <= result[0][0].start + dy and '
                  'result2[0][0].stop >= result[0][0].stop + dy and '
                  'result2[0][1].start <= result[0][1].start + dx and '
                  'result2[0][1].stop >= result[0][1].stop + dx)')],
        replay={'call': f'{BBMOD}.get_overlap_slices', 'self': 'BoundingBox', 'args': ['shape']},
        mutants=[('slice(max(ymin, 0), min(ymax, shape[0]))', 'slice(max(ymin, 1), min(ymax, shape[0]))'),
                 ('min(xmax, shape[1])', 'min(xmax, shape[1] - xmin)')],
    ))
    reg.add(Contract(
        target=f'{BB}.get_overlap_slices', props=['C03'], kind='method', tag='transpose',
        params=dict(box), requires=nonempty,
        relate={'second': {'self': 'record_("BoundingBox", ixmin=self.iymin, ixmax=self.iymax, '
                                   'iymin=self.ixmin, iymax=self.ixmax)',
                           'shape': '(shape[1], shape[0])'}},
        ensures=[('none-together', 'iff(result[0] is None, result2[0] is None)'),
                 ('slices-swap',
                  'implies(not (result[0] is None), '
                  'result2[0][0].start == result[0][1].start and '
                  'result2[0][0].stop == result[0][1].stop and '
                  'result2[0][1].start == result[0][0].start and '
                  'result2[0][1].stop == result[0][0].stop and '
                  'result2[1][0].start == result[1][1].start and '
                  'result2[1][0].stop == result[1][1].stop and '
                  'result2[1][1].start == result[1][0].start and '
                  'result2[1][1].stop == result[1][0].stop)')],
        replay={'call': f'{BBMOD}.get_overlap_slices', 'self': 'BoundingBox', 'args': ['shape']},
        mutants=[('xmin >= shape[1] or ymin >= shape[0]', 'xmin >= shape[1] or ymin > shape[0]'),
                 ('slice(max(-xmin, 0),', 'slice(max(-ymin, 0),')],
    ))

    # user-supplied positions -> the pixel that contains them.  "n - 1/2 < x <= n + 1/2"
    # determines n uniquely from x, and shifting x by an integer shifts n by the same integer:
    # the characterisation is translation covariant (unlike round-half-to-even or truncation)
    for rel, cls in (('photutils/detection/daofinder.py', 'DAOStarFinder'),
                     ('photutils/detection/irafstarfinder.py', 'IRAFStarFinder')):
        reg.record(cls + 'Coords', {'xycoords': ('arr', 2, 'real', 'nonempty')})
        reg.add(Contract(
            target=f'{rel}::{cls}._get_raw_catalog', props=['C03', 'C14'], kind='method',
            stmt='xypos', stmt_like='np.ceil(self.xycoords - 0.5).astype(int)', stmt_nth=1,
            params={'self': cls + 'Coords'},
            ensures=[('shape', 'value.shape == self.xycoords.shape'),
                     ('pixel-containing-the-position',
                      'forall(lambda i, j: value[i, j] - 0.5 < self.xycoords[i, j] and '
                      'self.xycoords[i, j] <= value[i, j] + 0.5, '
                      '(0, value.shape[0]), (0, value.shape[1]))'),
                     ('integer-valued',
                      'forall(lambda i, j: exists(lambda n: value[i, j] == n, None), '
                      '(0, value.shape[0]), (0, value.shape[1]))')],
            mutants=[('np.ceil(self.xycoords - 0.5).astype(int)', 'np.round(self.xycoords).astype(int)'),
                     ('np.ceil(self.xycoords - 0.5).astype(int)', 'self.xycoords.astype(int)'),
                     ('np.ceil(self.xycoords - 0.5).astype(int)', 'np.floor(self.xycoords + 0.5).astype(int)')],
        ))
