"""C19: curve-of-growth interpolators (monotone prefix), radii validation."""
from ..pyvc.contracts import Contract

COG = 'photutils/profiles/curve_of_growth.py::CurveOfGrowth'


def register(reg):
    reg.record('CurveOfGrowth', {'radius': ('seq', 'real'), 'profile': ('seq', 'real')})

    # retained prefix = the maximal strictly increasing prefix of the profile, so that the two
    # interpolators invert each other at every sampled radius of the monotone part
    reg.add(Contract(
        target=f'{COG}.calc_radius_at_ee', props=['C19'], kind='method',
        params={'self': 'CurveOfGrowth', 'ee': 'real'},
        requires=['len(self.radius) == len(self.profile)', 'len(self.profile) >= 2'],
        raises=[('ValueError', 'not (self.profile[0] < self.profile[1])')],
        ensures=[
            ('knots-are-a-prefix',
             'len(result.fn.x) == len(result.fn.y) and len(result.fn.x) >= 2 and '
             'len(result.fn.x) <= len(self.profile) and '
             'forall(lambda i: result.fn.x[i] == self.profile[i] and '
             'result.fn.y[i] == self.radius[i], (0, len(result.fn.x)))'),
            ('prefix-strictly-increasing',
             'forall(lambda i: self.profile[i] < self.profile[i + 1], '
             '(0, len(result.fn.x) - 1))'),
            ('prefix-maximal',
             'len(result.fn.x) == len(self.profile) or '
             'self.profile[len(result.fn.x)] <= self.profile[len(result.fn.x) - 1]'),
            ('evaluated-at-ee', 'result.args[0] == ee'),
        ],
        note='PchipInterpolator is external: modelled as an opaque callable record holding its '
             'knots (assumed: PCHIP interpolates its knots)',
        mutants=[('radius[0:idx + 1]', 'radius[0:idx]'), ('profile[0:idx + 1]', 'profile[0:idx]'),
                 ('np.diff(profile) <= 0', 'np.diff(profile) < 0'),
                 ('profile[0:idx + 1]', 'profile[0:idx + 2]')],
    ))
