"""C19: curve-of-growth interpolators (monotone prefix), radii validation."""
from ..pyvc.contracts import Contract

COG = 'photutils/profiles/curve_of_growth.py::CurveOfGrowth'


def register(reg):
    register_radial(reg)
    reg.record('CurveOfGrowth', {'radius': ('seq', 'real'), 'profile': ('seq', 'real')})

    # retained prefix = the maximal strictly increasing prefix of the profile, so that the two
    # interpolators invert each other at every sampled radius of the monotone part
    reg.add(Contract(
        target=f'{COG}.calc_radius_at_ee', props=['C19'], kind='method',
        params={'self': 'CurveOfGrowth', 'ee': 'real'},
        requires=['len(self.radius) == len(self.profile)', 'len(self.profile) >= 2'],
        raises=[('ValueError', 'not (self.profile[0] < self.profile[1])')],
        ensures=[
            ('knots-are-a-prefix',
             'len(result.fn.x) == len(result.fn.y) and len(result.fn.x) >= 2 and '
             'len(result.fn.x) <= len(self.profile) and '
             'forall(lambda i: result.fn.x[i] == self.profile[i] and '
             'result.fn.y[i] == self.radius[i], (0, len(result.fn.x)))'),
            ('prefix-strictly-increasing',
             'forall(lambda i: self.profile[i] < self.profile[i + 1], '
             '(0, len(result.fn.x) - 1))'),
            ('prefix-maximal',
             'len(result.fn.x) == len(self.profile) or '
             'self.profile[len(result.fn.x)] <= self.profile[len(result.fn.x) - 1]'),
            ('evaluated-at-ee', 'result.args[0] == ee'),
        ],
        note='PchipInterpolator is external: modelled as an opaque callable record holding its '
             'knots (assumed: PCHIP interpolates its knots)',
        mutants=[('radius[0:idx + 1]', 'radius[0:idx]'), ('profile[0:idx + 1]', 'profile[0:idx]'),
                 ('np.diff(profile) <= 0', 'np.diff(profile) < 0'),
                 ('profile[0:idx + 1]', 'profile[0:idx + 2]')],
    ))


def register_radial(reg):
    """RadialProfile.profile "equals (difference of consecutive aperture sums) / (difference of
    overlap areas) with errors propagated in quadrature, so a constant image yields that constant
    in every bin".  `_photometry` = (sums, sum errors, overlap areas) of the nested circular
    apertures (their values are the C02 contracts' business); `ghost_c` is a ghost field used to
    state the constant-image lemma."""
    RP = 'photutils/profiles/radial_profile.py::RadialProfile'
    reg.record('RadialProfile', {
        '_photometry': ('tuple', ('seq', 'real'), ('seq', 'real'), ('seq', 'real')),
        '_flux': ('seq', 'real'), '_fluxerr': ('seq', 'real'), 'area': ('seq', 'real'),
        'error': ('const', 'given'), 'ghost_c': 'real'})
    P = 'self._photometry'
    samelen = [f'len({P}[0]) == len({P}[2])', f'len({P}[1]) == len({P}[2])', f'len({P}[0]) >= 1']
    reg.add(Contract(
        target=f'{RP}._flux', props=['C19'], kind='property', params={'self': 'RadialProfile'},
        requires=samelen,
        ensures=[('difference-of-consecutive-sums',
                  f'len(result) == len({P}[0]) - 1 and forall(lambda k: result[k] == '
                  f'{P}[0][k + 1] - {P}[0][k], (0, len(result)))')],
        returns=('seq', 'real'),
        mutants=[('np.diff(self._photometry[0])', 'np.diff(self._photometry[2])')],
    ))
    reg.add(Contract(
        target=f'{RP}.area', props=['C19'], kind='property', params={'self': 'RadialProfile'},
        requires=samelen,
        ensures=[('difference-of-consecutive-overlap-areas',
                  f'len(result) == len({P}[2]) - 1 and forall(lambda k: result[k] == '
                  f'{P}[2][k + 1] - {P}[2][k], (0, len(result)))')],
        returns=('seq', 'real'),
        mutants=[('np.diff(self._photometry[2])', 'np.diff(self._photometry[0])')],
    ))
    reg.add(Contract(
        target=f'{RP}._fluxerr', props=['C19'], kind='property', params={'self': 'RadialProfile'},
        requires=samelen + [f'forall(lambda k: {P}[1][k] >= 0 and {P}[1][k] <= {P}[1][k + 1], '
                            f'(0, len({P}[1]) - 1))'],
        ensures=[('quadrature-difference',
                  f'len(result) == len({P}[1]) - 1 and forall(lambda k: result[k] >= 0 and '
                  f'sq(result[k]) == sq({P}[1][k + 1]) - sq({P}[1][k]), (0, len(result)))')],
        returns=('seq', 'real'),
        mutants=[('np.sqrt(np.diff(self._photometry[1] ** 2))', 'np.diff(self._photometry[1])'),
                 ('self._photometry[1] ** 2', 'self._photometry[1] ** 3')],
    ))
    bins = ['len(self._flux) == len(self.area)', 'len(self._fluxerr) == len(self.area)',
            # bins with a positive overlap area (the others are NaN/inf by design: the code
            # silences the divide-by-zero warning)
            'forall(lambda k: self.area[k] > 0, (0, len(self.area)))']
    reg.add(Contract(
        target=f'{RP}.profile', props=['C19'], kind='property', params={'self': 'RadialProfile'},
        requires=bins,
        ensures=[('flux-difference-over-area-difference',
                  'len(result) == len(self.area) and forall(lambda k: result[k] * self.area[k] '
                  '== self._flux[k], (0, len(result)))'),
                 ('constant-image-yields-the-constant',
                  'implies(forall(lambda k: self._flux[k] == self.ghost_c * self.area[k], '
                  '(0, len(self.area))), forall(lambda k: result[k] == self.ghost_c, '
                  '(0, len(result))))')],
        mutants=[('return self._flux / self.area', 'return self._flux / self._fluxerr'),
                 ('return self._flux / self.area', 'return self.area / self._flux')],
    ))
    reg.add(Contract(
        target=f'{RP}.profile_error', props=['C19'], kind='property',
        params={'self': 'RadialProfile'}, requires=bins,
        ensures=[('error-difference-over-area-difference',
                  'len(result) == len(self.area) and forall(lambda k: result[k] * self.area[k] '
                  '== self._fluxerr[k], (0, len(result)))')],
        mutants=[('return self._fluxerr / self.area', 'return self._fluxerr / self._flux')],
    ))
