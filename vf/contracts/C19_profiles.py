"""C19: curve-of-growth interpolators (monotone prefix), radii validation."""
from ..pyvc.contracts import Contract

COG = 'photutils/profiles/curve_of_growth.py::CurveOfGrowth'


def register(reg):
    register_radial(reg)
    register_photometry(reg)
    register_mask(reg)
    reg.record('CurveOfGrowth', {'radius': ('seq', 'real'), 'profile': ('seq', 'real')})

    # retained prefix = the maximal strictly increasing prefix of the profile, so that the two
    # interpolators invert each other at every sampled radius of the monotone part
    reg.add(Contract(
        target=f'{COG}.calc_radius_at_ee', props=['C19'], kind='method',
        params={'self': 'CurveOfGrowth', 'ee': 'real'},
        requires=['len(self.radius) == len(self.profile)', 'len(self.profile) >= 2'],
        raises=[('ValueError', 'not (self.profile[0] < self.profile[1])')],
        ensures=[
            ('knots-are-a-prefix',
             'len(result.fn.x) == len(result.fn.y) and len(result.fn.x) >= 2 and '
             'len(result.fn.x) <= len(self.profile) and '
             'forall(lambda i: result.fn.x[i] == self.profile[i] and '
             'result.fn.y[i] == self.radius[i], (0, len(result.fn.x)))'),
            ('prefix-strictly-increasing',
             'forall(lambda i: self.profile[i] < self.profile[i + 1], '
             '(0, len(result.fn.x) - 1))'),
            ('prefix-maximal',
             'len(result.fn.x) == len(self.profile) or '
             'self.profile[len(result.fn.x)] <= self.profile[len(result.fn.x) - 1]'),
            ('evaluated-at-ee', 'result.args[0] == ee'),
        ],
        note='PchipInterpolator is external: modelled as an opaque callable record holding its '
             'knots (assumed: PCHIP interpolates its knots)',
        mutants=[('radius[0:idx + 1]', 'radius[0:idx]'), ('profile[0:idx + 1]', 'profile[0:idx]'),
                 ('np.diff(profile) <= 0', 'np.diff(profile) < 0'),
                 ('profile[0:idx + 1]', 'profile[0:idx + 2]')],
    ))


def register_radial(reg):
    """RadialProfile.profile "equals (difference of consecutive aperture sums) / (difference of
    overlap areas) with errors propagated in quadrature, so a constant image yields that constant
    in every bin".  `_photometry` = (sums, sum errors, overlap areas) of the nested circular
    apertures (their values are the C02 contracts' business); `ghost_c` is a ghost field used to
    state the constant-image lemma."""
    RP = 'photutils/profiles/radial_profile.py::RadialProfile'
    reg.record('RadialProfile', {
        '_photometry': ('tuple', ('seq', 'real'), ('seq', 'real'), ('seq', 'real')),
        '_flux': ('seq', 'real'), '_fluxerr': ('seq', 'real'), 'area': ('seq', 'real'),
        'error': ('const', 'given'), 'ghost_c': 'real'})
    P = 'self._photometry'
    samelen = [f'len({P}[0]) == len({P}[2])', f'len({P}[1]) == len({P}[2])', f'len({P}[0]) >= 1']
    reg.add(Contract(
        target=f'{RP}._flux', props=['C19'], kind='property', params={'self': 'RadialProfile'},
        requires=samelen,
        ensures=[('difference-of-consecutive-sums',
                  f'len(result) == len({P}[0]) - 1 and forall(lambda k: result[k] == '
                  f'{P}[0][k + 1] - {P}[0][k], (0, len(result)))')],
        returns=('seq', 'real'),
        mutants=[('np.diff(self._photometry[0])', 'np.diff(self._photometry[2])')],
    ))
    reg.add(Contract(
        target=f'{RP}.area', props=['C19'], kind='property', params={'self': 'RadialProfile'},
        requires=samelen,
        ensures=[('difference-of-consecutive-overlap-areas',
                  f'len(result) == len({P}[2]) - 1 and forall(lambda k: result[k] == '
                  f'{P}[2][k + 1] - {P}[2][k], (0, len(result)))')],
        returns=('seq', 'real'),
        mutants=[('np.diff(self._photometry[2])', 'np.diff(self._photometry[0])')],
    ))
    reg.add(Contract(
        target=f'{RP}._fluxerr', props=['C19'], kind='property', params={'self': 'RadialProfile'},
        requires=samelen + [f'forall(lambda k: {P}[1][k] >= 0 and {P}[1][k] <= {P}[1][k + 1], '
                            f'(0, len({P}[1]) - 1))'],
        ensures=[('quadrature-difference',
                  f'len(result) == len({P}[1]) - 1 and forall(lambda k: result[k] >= 0 and '
                  f'sq(result[k]) == sq({P}[1][k + 1]) - sq({P}[1][k]), (0, len(result)))')],
        returns=('seq', 'real'),
        mutants=[('np.sqrt(np.diff(self._photometry[1] ** 2))', 'np.diff(self._photometry[1])'),
                 ('self._photometry[1] ** 2', 'self._photometry[1] ** 3')],
    ))
    bins = ['len(self._flux) == len(self.area)', 'len(self._fluxerr) == len(self.area)',
            # bins with a positive overlap area (the others are NaN/inf by design: the code
            # silences the divide-by-zero warning)
            'forall(lambda k: self.area[k] > 0, (0, len(self.area)))']
    reg.add(Contract(
        target=f'{RP}.profile', props=['C19'], kind='property', params={'self': 'RadialProfile'},
        requires=bins,
        ensures=[('flux-difference-over-area-difference',
                  'len(result) == len(self.area) and forall(lambda k: result[k] * self.area[k] '
                  '== self._flux[k], (0, len(result)))'),
                 ('constant-image-yields-the-constant',
                  'implies(forall(lambda k: self._flux[k] == self.ghost_c * self.area[k], '
                  '(0, len(self.area))), forall(lambda k: result[k] == self.ghost_c, '
                  '(0, len(result))))')],
        mutants=[('return self._flux / self.area', 'return self._flux / self._fluxerr'),
                 ('return self._flux / self.area', 'return self.area / self._flux')],
    ))
    reg.add(Contract(
        target=f'{RP}.profile_error', props=['C19'], kind='property',
        params={'self': 'RadialProfile'}, requires=bins,
        ensures=[('error-difference-over-area-difference',
                  'len(result) == len(self.area) and forall(lambda k: result[k] * self.area[k] '
                  '== self._fluxerr[k], (0, len(result)))')],
        mutants=[('return self._fluxerr / self.area', 'return self._fluxerr / self._flux')],
    ))


def register_photometry(reg):
    """CurveOfGrowth.profile "at each radius equals the circular-aperture sum of the unmasked data
    for that radius and method": the nested apertures are circles of the given radii about the
    profile centre (None for a non-positive radius), and entry k of the photometry is what
    aperture k's do_photometry / area_overlap return for *this* profile's data, error, mask,
    method and subpixels (0 for a non-positive radius).  apsum_ / aperr_ / aparea_ stand for
    those two methods (their own meaning is the business of the C02 contracts); id_() is the
    identity of an array object, code_() a distinct integer per string."""
    PB = 'photutils/profiles/core.py::ProfileBase'
    reg.record('CircularAperture', {'x': 'real', 'y': 'real', 'r': 'posreal'})
    reg.add(Contract(
        target='photutils/aperture/circle.py::CircularAperture.__init__', props=['C19'], kind='method',
        params={'self': 'CircularAperture', 'positions': ('tuple', 'real', 'real'), 'r': 'real'},
        requires=['r > 0'],
        ensures=[('stores', 'self.x == positions[0] and self.y == positions[1] and self.r == r')],
        returns='CircularAperture', assumed=True,
        note='CircularAperture(xy, r) is the circle of radius r about xy (constructor, assumed)',
    ))
    args = ('self.x, self.y, self.r, id_(data), id_(error), id_(mask), code_(method), subpixels')
    reg.add(Contract(
        target='photutils/aperture/circle.py::CircularAperture.do_photometry', props=['C19'], kind='method',
        params={'self': 'CircularAperture', 'data': ('arr', 2, 'real'), 'error': ('arr', 2, 'real'),
                'mask': ('arr', 2, 'bool'), 'method': 'str', 'subpixels': 'int'},
        ensures=[('names-the-sums', f'result[0][0] == apsum_({args}) and result[1][0] == aperr_({args})')],
        returns=('tuple', ('tuple', 'real'), ('tuple', 'real')), assumed=True,
        note='apsum_/aperr_ name what CircularAperture.do_photometry returns for these arguments',
    ))
    reg.add(Contract(
        target='photutils/aperture/circle.py::CircularAperture.area_overlap', props=['C19'], kind='method',
        params={'self': 'CircularAperture', 'data': ('arr', 2, 'real'), 'mask': ('arr', 2, 'bool'),
                'method': 'str', 'subpixels': 'int'},
        ensures=[('names-the-area', 'result == aparea_(self.x, self.y, self.r, id_(data), '
                                    'id_(mask), code_(method), subpixels)')],
        returns='real', assumed=True,
        note='aparea_ names what CircularAperture.area_overlap returns for these arguments',
    ))
    reg.record('ProfileApertures', {'radii': ('seq', 'real'), 'xycen': ('tuple', 'real', 'real')})
    reg.add(Contract(
        target=f'{PB}._circular_apertures', props=['C19', 'C03'], kind='property',
        params={'self': 'ProfileApertures'},
        ensures=[('one-per-radius', 'len(result) == len(self.radii)'),
                 ('none-iff-radius-not-positive',
                  'forall(lambda k: iff(result[k] is None, self.radii[k] <= 0), (0, len(result)))'),
                 ('circle-of-that-radius-about-the-centre',
                  'forall(lambda k: implies(self.radii[k] > 0, result[k].r == self.radii[k] and '
                  'result[k].x == self.xycen[0] and result[k].y == self.xycen[1]), '
                  '(0, len(result)))')],
        mutants=[('if radius <= 0.0:', 'if radius < 0.0:'),
                 ('CircularAperture(self.xycen, radius)', 'CircularAperture(self.xycen, radius + 1)')],
    ))
    for meth in ('exact', 'center', 'subpixel'):
        reg.record('ProfilePhot@' + meth, {
            '_circular_apertures': ('seq', ('opt', 'CircularAperture')),
            'data': ('arr', 2, 'real'), 'error': ('arr', 2, 'real'), 'mask': ('arr', 2, 'bool'),
            'method': ('const', meth), 'subpixels': 'pos', 'unit': None})
        a = 'self._circular_apertures[k]'
        full = (f'{a}.x, {a}.y, {a}.r, id_(self.data), id_(self.error), id_(self.mask), '
                f'code_(self.method), self.subpixels')
        reg.add(Contract(
            target=f'{PB}._photometry', props=['C19', 'C03'], kind='property', tag=meth,
            params={'self': 'ProfilePhot@' + meth},
            ensures=[
                ('one-entry-per-aperture',
                 'len(result[0]) == len(self._circular_apertures) and '
                 'len(result[1]) == len(self._circular_apertures) and '
                 'len(result[2]) == len(self._circular_apertures)'),
                ('entry-k-is-aperture-k-on-this-profiles-inputs',
                 f'forall(lambda k: result[0][k] == ite({a} is None, 0, apsum_({full})) and '
                 f'result[1][k] == ite({a} is None, 0, aperr_({full})) and '
                 f'result[2][k] == ite({a} is None, 0, aparea_({a}.x, {a}.y, {a}.r, '
                 'id_(self.data), id_(self.mask), code_(self.method), self.subpixels)), '
                 '(0, len(self._circular_apertures)))'),
            ],
            mutants=[('method=self.method, subpixels=self.subpixels)\n                area',
                      'method=self.method)\n                area'),
                     ('area = aperture.area_overlap(self.data, mask=self.mask,',
                      'area = aperture.area_overlap(self.data, mask=None,'),
                     ('flux, fluxerr = [0.0], [0.0]', 'flux, fluxerr = [1.0], [0.0]')]
            if meth == 'subpixel' else [],
        ))


def register_mask(reg):
    """C19 "of the unmasked data": the pixels a profile ignores are exactly the masked ones plus
    those where the data or the error is not finite (that the caller's mask is not written is a
    frame obligation of the effects engine)."""
    PB = 'photutils/profiles/core.py::ProfileBase'
    img = ('arr', 2, 'real', 'nonfinite', 'nonempty')
    box = '(0, data.shape[0]), (0, data.shape[1])'
    for tag, espec, mspec in (('error+mask', img, ('arr', 2, 'bool')), ('mask', ('const', None), ('arr', 2, 'bool')),
                              ('error', img, ('const', None)), ('neither', ('const', None), ('const', None))):
        terms = ['not isfinite_at(data, j, i)']
        req = []
        if espec == img:
            terms.append('not isfinite_at(error, j, i)')
            req.append('error.shape == data.shape')
        if mspec != ('const', None):
            terms.append('mask[j, i]')
            req.append('mask.shape == data.shape')
        reg.add(Contract(
            target=f'{PB}._compute_mask', props=['C19', 'C10'], kind='method', tag=tag,
            params={'self': ('record', 'ProfileBase', {}), 'data': img, 'error': espec, 'mask': mspec},
            requires=req,
            ensures=[('shape', 'result.shape == data.shape'),
                     ('ignored-iff-masked-or-not-finite-in-data-or-error',
                      f'forall(lambda j, i: iff(result[j, i], {" or ".join(terms)}), {box})')],
            mutants=[('badmask = ~np.isfinite(data)', 'badmask = np.isfinite(data)')]
            + ([('badmask |= ~np.isfinite(error)', 'badmask &= ~np.isfinite(error)')] if espec == img else [])
            + ([('mask = mask | badmask', 'mask = mask & badmask'),
                ('badmask &= ~mask', 'badmask |= ~mask')] if mspec != ('const', None) else []),
        ))
