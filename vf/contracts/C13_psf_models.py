"""C13: ImagePSF index transform / fill rule, GriddedPSFModel bilinear weights."""
from ..pyvc.contracts import Contract

I = 'photutils/psf/image_models.py::ImagePSF'
G = 'photutils/psf/gridded_models.py::GriddedPSFModel'


def register(reg):
    register_gaussians(reg)
    register_relational(reg)
    register_origin(reg)
    reg.record('ImagePSF', {'oversampling': ('tuple', 'posreal', 'posreal'),
                            '_origin': ('tuple', 'real', 'real'),
                            'interpolator': ('ufunc', 'spline', 2),
                            'fill_value': 'real',
                            'data': ('arr', 2, 'real', 'nonempty')})
    xi = 'self.oversampling[1] * (x[k] - x_0) + self._origin[0]'
    yi = 'self.oversampling[0] * (y[k] - y_0) + self._origin[1]'
    nx, ny = 'self.data.shape[1]', 'self.data.shape[0]'
    reg.add(Contract(
        target=f'{I}.evaluate', props=['C13'], kind='method',
        params={'self': 'ImagePSF', 'x': ('arr', 1, 'real'), 'y': ('arr', 1, 'real'),
                'flux': 'real', 'x_0': 'real', 'y_0': 'real'},
        requires=['x.shape == y.shape'],
        ensures=[
            # oversampling is stored (y, x), the origin (x, y); outside [0, n-1] the fill value
            ('value-or-fill',
             f'forall(lambda k: result[k] == ite(({xi}) < 0 or ({xi}) > {nx} - 1 or ({yi}) < 0 '
             f'or ({yi}) > {ny} - 1, self.fill_value, flux * spline({xi}, {yi})), '
             '(0, x.shape[0]))'),
            # at the sample point of knot (j0, i0) the spline is evaluated exactly at (i0, j0)
            ('knots-map-to-integers',
             'forall(lambda k, i0, j0: implies('
             'x[k] == x_0 + (i0 - self._origin[0]) / self.oversampling[1] and '
             'y[k] == y_0 + (j0 - self._origin[1]) / self.oversampling[0] and '
             f'0 <= i0 and i0 <= {nx} - 1 and 0 <= j0 and j0 <= {ny} - 1, '
             'result[k] == flux * spline(i0, j0)), (0, x.shape[0]), None, None)'),
            ('shape', 'result.shape == x.shape'),
        ],
        note='the cubic spline is an uninterpreted function of (xi, yi) (assumed: it interpolates '
             'its knots); machine rounding of xi at edge knots is outside A-real',
        mutants=[('self.oversampling[1] * (np.asarray(x', 'self.oversampling[0] * (np.asarray(x'),
                 ('xi += self._origin[0]', 'xi += self._origin[1]'),
                 ('(xi > nx - 1)', '(xi > nx)'), ('(yi < 0)', '(yi <= 0)'),
                 ('(yi > ny - 1)', '(yi > nx - 1)')],
    ))

    # bilinear weights: non-negative, sum to one, reproduce the corner values, clamp outside
    reg.add(Contract(
        target=f'{G}._calc_bilinear_weights', props=['C13'], kind='method',
        params={'self': ('record', 'GriddedPSFModel', {}), 'xi': 'real', 'yi': 'real', 'grid_xy': ('tuple', 'real', 'real', 'real', 'real')},
        requires=['grid_xy[0] < grid_xy[1]', 'grid_xy[2] < grid_xy[3]'],
        ensures=[
            ('non-negative', 'result[0] >= 0 and result[1] >= 0 and result[2] >= 0 and '
                             'result[3] >= 0'),
            ('sum-to-one', 'result[0] + result[1] + result[2] + result[3] == 1'),
            ('lower-left-corner', 'implies(xi <= grid_xy[0] and yi <= grid_xy[2], '
                                  'result[0] == 1 and result[1] == 0 and result[2] == 0 and '
                                  'result[3] == 0)'),
            ('upper-right-corner', 'implies(xi >= grid_xy[1] and yi >= grid_xy[3], '
                                   'result[3] == 1 and result[0] == 0)'),
            ('x-interpolation', 'implies(grid_xy[0] <= xi and xi <= grid_xy[1], '
                                '(result[1] + result[3]) * (grid_xy[1] - grid_xy[0]) '
                                '== xi - grid_xy[0])'),
            ('y-interpolation', 'implies(grid_xy[2] <= yi and yi <= grid_xy[3], '
                                '(result[2] + result[3]) * (grid_xy[3] - grid_xy[2]) '
                                '== yi - grid_xy[2])'),
        ],
        mutants=[('(xi - x0) * (y1 - yi)', '(xi - x0) * (yi - y0)'),
                 ('np.clip(xi, x0, x1)', 'np.clip(xi, y0, y1)'),
                 ('(x1 - xi) * (y1 - yi), (xi - x0) * (y1 - yi)',
                  '(xi - x0) * (y1 - yi), (x1 - xi) * (y1 - yi)')],
    ))

    # degenerate grids: a single grid point along x and / or y ("nearest edge value" along the
    # other axis still applies: positions beyond the first / last point get the edge ePSF)
    gx0, gx1, gy0, gy1 = 'grid_xy[0]', 'grid_xy[1]', 'grid_xy[2]', 'grid_xy[3]'
    nonneg = 'result[0] >= 0 and result[1] >= 0 and result[2] >= 0 and result[3] >= 0'
    one = 'result[0] + result[1] + result[2] + result[3] == 1'
    for tag, req, ens in (
            ('single-row', [f'{gx0} < {gx1}', f'{gy0} == {gy1}'],
             [('all-weight-on-the-row', 'result[2] == 0 and result[3] == 0'),
              ('x-interpolation-clamped-at-the-ends',
               f'result[1] * ({gx1} - {gx0}) == ite(xi <= {gx0}, 0, ite(xi >= {gx1}, '
               f'{gx1} - {gx0}, xi - {gx0}))')]),
            ('single-column', [f'{gx0} == {gx1}', f'{gy0} < {gy1}'],
             [('all-weight-on-the-column', 'result[1] == 0 and result[3] == 0'),
              ('y-interpolation-clamped-at-the-ends',
               f'result[2] * ({gy1} - {gy0}) == ite(yi <= {gy0}, 0, ite(yi >= {gy1}, '
               f'{gy1} - {gy0}, yi - {gy0}))')]),
            ('single-point', [f'{gx0} == {gx1}', f'{gy0} == {gy1}'],
             [('all-weight-on-the-point', 'result[0] == 1 and result[1] == 0 and result[2] == 0 '
                                          'and result[3] == 0')])):
        reg.add(Contract(
            target=f'{G}._calc_bilinear_weights', props=['C13'], kind='method', tag=tag,
            params={'self': ('record', 'GriddedPSFModel', {}), 'xi': 'real', 'yi': 'real',
                    'grid_xy': ('tuple', 'real', 'real', 'real', 'real')},
            requires=req,
            ensures=[('non-negative', nonneg), ('sum-to-one', one)] + ens,
            mutants={'single-row': [('xi = np.clip(xi, x0, x1)', 'xi = xi'),
                                    ('wx[0] * wy[0], wx[1] * wy[0],', 'wx[0] * wy[0], wx[0] * wy[1],')],
                     'single-column': [('yi = np.clip(yi, y0, y1)', 'yi = yi'),
                                       ('wx[0] * wy[0], wx[1] * wy[0],', 'wx[0] * wy[0], wx[0] * wy[1],')],
                     'single-point': []}[tag],
        ))


def register_gaussians(reg):
    import z3
    F = 'photutils/psf/functional_models.py::'
    K = z3.Real('GAUSSIAN_FWHM_TO_SIGMA')
    consts = {'GAUSSIAN_FWHM_TO_SIGMA': K}
    kpos = 'GAUSSIAN_FWHM_TO_SIGMA > 0'
    pt = {'x': 'real', 'y': 'real', 'flux': 'real', 'x_0': 'real', 'y_0': 'real'}

    reg.add(Contract(
        target=F + 'CircularGaussianPSF.evaluate', props=['C13'], kind='method',
        replay={'call': 'photutils.psf.functional_models:CircularGaussianPSF.evaluate', 'self': 'none', 'approx': True, 'args': ['x', 'y', 'flux', 'x_0', 'y_0', 'fwhm']},
        params={'self': ('record', 'CircularGaussianPSF', {}), **pt, 'fwhm': 'posreal'},
        requires=[kpos], consts=consts,
        ensures=[('closed-form',
                  'result == flux / (2 * pi_() * sq(fwhm * GAUSSIAN_FWHM_TO_SIGMA)) * '
                  'exp_(-(sq(x - x_0) + sq(y - y_0)) / (2 * sq(fwhm * GAUSSIAN_FWHM_TO_SIGMA)))'),
                 ('linear-in-flux',
                  'result * 2 == 2 * flux / (2 * pi_() * sq(fwhm * GAUSSIAN_FWHM_TO_SIGMA)) * '
                  'exp_(-(sq(x - x_0) + sq(y - y_0)) / (2 * sq(fwhm * GAUSSIAN_FWHM_TO_SIGMA)))')],
        mutants=[('2 * np.pi * sigma2_norm', 'np.pi * sigma2_norm'),
                 ('-0.5 * ((x - x_0) ** 2', '-1.0 * ((x - x_0) ** 2'),
                 ('(y - y_0) ** 2)', '(y + y_0) ** 2)')],
    ))

    # elliptical Gaussian PSF: rotated quadratic form; with equal widths it is the circular PSF
    t = 'deg2rad_(theta)'
    xr = f'((x - x_0) * cos_({t}) + (y - y_0) * sin_({t}))'
    yr = f'(-(x - x_0) * sin_({t}) + (y - y_0) * cos_({t}))'
    sx = '(x_fwhm * GAUSSIAN_FWHM_TO_SIGMA)'
    sy = '(y_fwhm * GAUSSIAN_FWHM_TO_SIGMA)'
    reg.add(Contract(
        target=F + 'GaussianPSF.evaluate', props=['C13'], kind='method',
        replay={'call': 'photutils.psf.functional_models:GaussianPSF.evaluate', 'self': 'none', 'approx': True, 'args': ['x', 'y', 'flux', 'x_0', 'y_0', 'x_fwhm', 'y_fwhm', 'theta']},
        params={'self': ('record', 'GaussianPSF', {}), **pt, 'x_fwhm': 'posreal',
                'y_fwhm': 'posreal', 'theta': 'real'},
        requires=[kpos,
                  # double-angle identity for the one angle used (trusted trig lemma)
                  f'sin_(2 * {t}) == 2 * sin_({t}) * cos_({t})',
                  f'sq(sin_({t})) + sq(cos_({t})) == 1'],
        consts=consts,
        ensures=[('closed-form',
                  f'result == flux / (2 * pi_() * {sx} * {sy}) * '
                  f'exp_(-(sq({xr}) / (2 * sq({sx})) + sq({yr}) / (2 * sq({sy}))))'),
                 ('equal-widths-is-circular',
                  'implies(x_fwhm == y_fwhm, result == flux / (2 * pi_() * sq(' + sx + ')) * '
                  'exp_(-(sq(x - x_0) + sq(y - y_0)) / (2 * sq(' + sx + '))))')],
        note='sin/cos/exp/deg2rad are uninterpreted; the double-angle identity and sin^2+cos^2=1 are '
             'assumed for the angle used',
        mutants=[('0.5 * ((sin2t / xstd2) - (sin2t / ystd2))', '0.5 * ((sin2t / xstd2) + (sin2t / ystd2))'),
                 ('(cost2 / xstd2) + (sint2 / ystd2)', '(sint2 / xstd2) + (cost2 / ystd2)'),
                 ('2 * np.pi * xstd * ystd', '2 * np.pi * xstd * xstd')],
    ))

    s2 = 'sqrt_(2)'
    reg.add(Contract(
        target=F + 'GaussianPRF.evaluate', props=['C13'], kind='method',
        replay={'call': 'photutils.psf.functional_models:GaussianPRF.evaluate', 'self': 'none', 'approx': True, 'args': ['x', 'y', 'flux', 'x_0', 'y_0', 'x_fwhm', 'y_fwhm', 'theta']},
        params={'self': ('record', 'GaussianPRF', {}), **pt, 'x_fwhm': 'posreal',
                'y_fwhm': 'posreal', 'theta': 'real'},
        requires=[kpos], consts=consts,
        ensures=[('erf-difference-formula',
                  f'result == flux / 4 * (erf_(({xr} + 0.5) / ({s2} * {sx})) - '
                  f'erf_(({xr} - 0.5) / ({s2} * {sx}))) * (erf_(({yr} + 0.5) / ({s2} * {sy})) - '
                  f'erf_(({yr} - 0.5) / ({s2} * {sy})))')],
        mutants=[('y0 = -dx * sint + dy * cost', 'y0 = dx * sint + dy * cost'),
                 ('dpix = 0.5', 'dpix = 1.0'), ('flux / 4.0', 'flux / 2.0'),
                 ('(np.sqrt(2) * y_sigma)))))', '(np.sqrt(2) * x_sigma)))))')],
    ))
    reg.add(Contract(
        target=F + 'CircularGaussianPRF.evaluate', props=['C13'], kind='method',
        replay={'call': 'photutils.psf.functional_models:CircularGaussianPRF.evaluate', 'self': 'none', 'approx': True, 'args': ['x', 'y', 'flux', 'x_0', 'y_0', 'fwhm']},
        params={'self': ('record', 'CircularGaussianPRF', {}), **pt, 'fwhm': 'posreal'},
        requires=[kpos], consts=consts,
        ensures=[('erf-difference-formula',
                  'result == flux / 4 * '
                  f'(erf_((x - x_0 + 0.5) / ({s2} * fwhm * GAUSSIAN_FWHM_TO_SIGMA)) - '
                  f'erf_((x - x_0 - 0.5) / ({s2} * fwhm * GAUSSIAN_FWHM_TO_SIGMA))) * '
                  f'(erf_((y - y_0 + 0.5) / ({s2} * fwhm * GAUSSIAN_FWHM_TO_SIGMA)) - '
                  f'erf_((y - y_0 - 0.5) / ({s2} * fwhm * GAUSSIAN_FWHM_TO_SIGMA)))')],
        mutants=[('dpix = 0.5', 'dpix = 0.25'), ('(y0 - dpix)', '(y0 + dpix)')],
    ))


ERF_MONOTONE = 'forall_real(lambda a, b: implies(a <= b, erf_(a) <= erf_(b)))'
ERF_ODD = 'forall_real(lambda a: erf_(-a) == -erf_(a))'
EXP_POSITIVE = 'forall_real(lambda a: exp_(a) > 0)'


def _rp(cls, widths):
    return {'call': f'photutils.psf.functional_models:{cls}.evaluate', 'self': 'none',
            'approx': True, 'args': ['x', 'y', 'flux', 'x_0', 'y_0'] + list(widths)}


def register_relational(reg):
    import z3
    F = 'photutils/psf/functional_models.py::'
    K = z3.Real('GAUSSIAN_FWHM_TO_SIGMA')
    consts = {'GAUSSIAN_FWHM_TO_SIGMA': K}
    kpos = 'GAUSSIAN_FWHM_TO_SIGMA > 0'
    pt = {'x': 'real', 'y': 'real', 'flux': 'real', 'x_0': 'real', 'y_0': 'real'}
    widths = {
        'CircularGaussianPSF': {'fwhm': 'posreal'},
        'GaussianPSF': {'x_fwhm': 'posreal', 'y_fwhm': 'posreal', 'theta': 'real'},
        'GaussianPRF': {'x_fwhm': 'posreal', 'y_fwhm': 'posreal', 'theta': 'real'},
        'CircularGaussianPRF': {'fwhm': 'posreal'},
        'CircularGaussianSigmaPRF': {'sigma': 'posreal'},
    }
    for cls, w in widths.items():
        prf = cls.endswith('PRF')
        lemma = ERF_MONOTONE if prf else EXP_POSITIVE
        params = {'self': ('record', cls, {}), **pt, **w}
        reg.add(Contract(
            target=F + cls + '.evaluate', props=['C13'], kind='method', tag='linear-in-flux',
            replay=_rp(cls, w),
            params=dict(params), requires=[kpos], consts=consts,
            relate={'extra': {'k': 'real'}, 'second': {'flux': 'k * flux'}},
            ensures=[('scales-with-flux', 'result2 == k * result')],
            mutants=[('flux / 4', '(flux + 1) / 4')] if prf else
                    [('flux / (2 * np.pi', 'flux ** 2 / (2 * np.pi')],
        ))
        reg.add(Contract(
            target=F + cls + '.evaluate', props=['C13'], kind='method', tag='non-negative',
            replay=_rp(cls, w),
            params=dict(params), requires=[kpos, 'flux >= 0', lemma], consts=consts,
            ensures=[('non-negative', 'result >= 0')],
            note=('erf is monotone' if prf else 'exp is positive') + ' (assumed lemma about the '
                 'uninterpreted function)',
            mutants=[('- dpix', '+ 3 * dpix')] if prf else [],
        ))
        if cls == 'GaussianPRF':
            # point symmetry of the rotated PRF needs erf oddness under products of sin/cos and
            # the widths: decided only by the third back end after ~25 s, i.e. unstable under
            # load; left to the bounded driver
            continue
        reg.add(Contract(
            target=F + cls + '.evaluate', props=['C13'], kind='method', tag='centred',
            replay=_rp(cls, w),
            params=dict(params), requires=[kpos] + ([ERF_ODD] if prf else []), consts=consts,
            relate={'second': {'x': '2 * x_0 - x', 'y': '2 * y_0 - y'}},
            ensures=[('point-symmetric-about-x0-y0', 'result2 == result')],
            note='erf is odd (assumed lemma)' if prf else '',
            mutants=[('x - x_0 + dpix', 'x - x_0 + 1.5 * dpix')] if cls == 'CircularGaussianSigmaPRF'
                    else [('(x0 + dpix)', '(x0 + 1.5 * dpix)')] if cls == 'CircularGaussianPRF' else
                    ([('(x - x_0) ** 2', '(x - x_0 - 1) ** 2')] if cls == 'CircularGaussianPSF'
                     else []),
        ))
    s2 = 'sqrt_(2)'
    reg.add(Contract(
        target=F + 'CircularGaussianSigmaPRF.evaluate', props=['C13'], kind='method',
        replay={'call': 'photutils.psf.functional_models:CircularGaussianSigmaPRF.evaluate', 'self': 'none', 'approx': True, 'args': ['x', 'y', 'flux', 'x_0', 'y_0', 'sigma']},
        params={'self': ('record', 'CircularGaussianSigmaPRF', {}), **pt, 'sigma': 'posreal'},
        requires=[kpos], consts=consts,
        ensures=[('erf-difference-formula',
                  'result == flux / 4 * '
                  f'(erf_((x - x_0 + 0.5) / ({s2} * sigma)) - erf_((x - x_0 - 0.5) / ({s2} * sigma))) * '
                  f'(erf_((y - y_0 + 0.5) / ({s2} * sigma)) - erf_((y - y_0 - 0.5) / ({s2} * sigma)))'),
                 # agreement with the FWHM-parametrised form (CircularGaussianPRF closed form
                 # at fwhm = sigma / GAUSSIAN_FWHM_TO_SIGMA)
                 ('agrees-with-fwhm-form',
                  'result == flux / 4 * '
                  f'(erf_((x - x_0 + 0.5) / ({s2} * (sigma / GAUSSIAN_FWHM_TO_SIGMA) * GAUSSIAN_FWHM_TO_SIGMA)) - '
                  f'erf_((x - x_0 - 0.5) / ({s2} * (sigma / GAUSSIAN_FWHM_TO_SIGMA) * GAUSSIAN_FWHM_TO_SIGMA))) * '
                  f'(erf_((y - y_0 + 0.5) / ({s2} * (sigma / GAUSSIAN_FWHM_TO_SIGMA) * GAUSSIAN_FWHM_TO_SIGMA)) - '
                  f'erf_((y - y_0 - 0.5) / ({s2} * (sigma / GAUSSIAN_FWHM_TO_SIGMA) * GAUSSIAN_FWHM_TO_SIGMA)))')],
        mutants=[('dpix = 0.5', 'dpix = 0.45'), ('(np.sqrt(2) * sigma)))))', '(2 * sigma)))))')],
    ))


def register_origin(reg):
    """ImagePSF "for any oversampling and origin": the stored origin is the (x, y) pair the user
    gave, or the array centre in (x, y) order."""
    T = 'photutils/psf/image_models.py::ImagePSF.origin.setter'
    reg.add(Contract(
        target=T, props=['C13'], kind='method', tag='given',
        params={'self': 'ImagePSF', 'origin': ('arr', 1, 'real')},
        requires=['origin.shape[0] == 2'],
        ensures=[('stored-as-given-in-x-y-order',
                  'self._origin[0] == origin[0] and self._origin[1] == origin[1]')],
        mutants=[('        self._origin = origin\n', '        self._origin = origin[::-1]\n')],
    ))
    reg.add(Contract(
        target=T, props=['C13'], kind='method', tag='default',
        params={'self': 'ImagePSF', 'origin': None},
        ensures=[('array-centre-in-x-y-order',
                  'self._origin[0] * 2 == self.data.shape[1] - 1 and '
                  'self._origin[1] * 2 == self.data.shape[0] - 1')],
        mutants=[('origin = origin[::-1]  # flip to (x, y) order', 'origin = origin'),
                 ('(np.array(self.data.shape) - 1.0) / 2.0', '(np.array(self.data.shape)) / 2.0')],
    ))
    register_gridded(reg)


def register_gridded(reg):
    """GriddedPSFModel "equals the stored ePSF at each grid position": the origin added to every
    oversampled offset is the array centre (x, y order, half-integers for even sizes), and the grid
    cell used for a position is the one that contains it (the nearest one outside the grid)."""
    reg.record('GriddedPSFModelData', {'data': ('arr', 3, 'real')})
    reg.add(Contract(
        target=f'{G}.origin', props=['C13'], kind='property',
        params={'self': 'GriddedPSFModelData'},
        ensures=[('array-centre-in-x-y-order',
                  'result[0] * 2 == self.data.shape[2] - 1 and '
                  'result[1] * 2 == self.data.shape[1] - 1')],
        mutants=[('(np.array(self.data.shape) - 1) / 2', '(np.array(self.data.shape) - 1) // 2'),
                 ('return xyorigin[::-1]', 'return xyorigin[1:]'),
                 ('return xyorigin[::-1]', 'return xyorigin'),
                 ('(np.array(self.data.shape) - 1) / 2', '(np.array(self.data.shape)) / 2')],
    ))
    reg.record('GriddedPSFModelGrid', {'_xgrid': ('seq', 'real'), '_ygrid': ('seq', 'real')})
    srt = lambda g: (f'forall(lambda k, m: implies(k < m, self.{g}[k] < self.{g}[m]), '  # noqa: E731
                     f'(0, len(self.{g})), (0, len(self.{g})))')

    def cell(g, v, i):
        n = f'len(self.{g})'
        return (f'0 <= {i} and {i} <= {n} - 2 and '
                f'implies(self.{g}[0] <= {v} and {v} <= self.{g}[{n} - 1], '
                f'self.{g}[{i}] <= {v} and {v} <= self.{g}[{i} + 1]) and '
                f'implies({v} < self.{g}[0], {i} == 0) and '
                f'implies({v} > self.{g}[{n} - 1], {i} == {n} - 2)')
    reg.add(Contract(
        target=f'{G}._find_bounding_points', props=['C13'], kind='method', tag='cell',
        block=('xidx', 'yidx'),
        params={'self': 'GriddedPSFModelGrid', 'x': 'real', 'y': 'real'},
        requires=['len(self._xgrid) >= 2', 'len(self._ygrid) >= 2', srt('_xgrid'), srt('_ygrid')],
        ensures=[('x-cell-contains-x-or-is-the-nearest', cell('_xgrid', 'x', 'xidx')),
                 ('y-cell-contains-y-or-is-the-nearest', cell('_ygrid', 'y', 'yidx'))],
        mutants=[('xidx = np.searchsorted(self._xgrid, x) - 1', 'xidx = np.searchsorted(self._xgrid, x)'),
                 ('yidx = np.searchsorted(self._ygrid, y) - 1', 'yidx = np.searchsorted(self._xgrid, y) - 1'),
                 ('xidx = np.clip(xidx, 0, len(self._xgrid) - 2)', 'xidx = np.clip(xidx, 0, len(self._xgrid) - 1)'),
                 ('yidx = np.clip(yidx, 0, len(self._ygrid) - 2)', 'yidx = np.clip(yidx, 1, len(self._ygrid) - 2)')],
    ))
