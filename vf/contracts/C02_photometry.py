"""C02: the pixel set, weights and values that enter aperture sums.

Chain: BoundingBox.get_overlap_slices (C01, proved) -> ApertureMask.get_overlap_slices ->
ApertureMask._get_overlap_cutouts (weights / good-pixel mask, pointwise) -> statement contracts on
the two sum expressions of PixelAperture.do_photometry (data and error use the same slices and the
same good-pixel mask).  numpy's sum over the selected bag is the trusted lemma L-sum.
"""
from ..pyvc.contracts import Contract

M = 'photutils/aperture/mask.py::ApertureMask'
A = 'photutils/aperture/core.py::PixelAperture'

DISJOINT = ('self.bbox.ixmin >= shape[1] or self.bbox.iymin >= shape[0] or self.bbox.ixmax <= 0 '
            'or self.bbox.iymax <= 0')
VALID = ['self.bbox.ixmin < self.bbox.ixmax', 'self.bbox.iymin < self.bbox.iymax',
         'shape[0] >= 1', 'shape[1] >= 1',
         'self.data.shape == (self.bbox.iymax - self.bbox.iymin, '
         'self.bbox.ixmax - self.bbox.ixmin)']
SLICES = [
    ('none-iff-disjoint', f'iff(result[0] is None, {DISJOINT})'),
    ('both-none', 'iff(result[0] is None, result[1] is None)'),
    ('large-is-intersection',
     'implies(not (result[0] is None), '
     'result[0][0].start == max(self.bbox.iymin, 0) and '
     'result[0][0].stop == min(self.bbox.iymax, shape[0]) and '
     'result[0][1].start == max(self.bbox.ixmin, 0) and '
     'result[0][1].stop == min(self.bbox.ixmax, shape[1]))'),
    ('small-is-shifted-large',
     'implies(not (result[0] is None), '
     'result[1][0].start == result[0][0].start - self.bbox.iymin and '
     'result[1][0].stop == result[0][0].stop - self.bbox.iymin and '
     'result[1][1].start == result[0][1].start - self.bbox.ixmin and '
     'result[1][1].stop == result[0][1].stop - self.bbox.ixmin)'),
    ('steps-none', 'implies(not (result[0] is None), result[0][0].step is None and '
                   'result[0][1].step is None and result[1][0].step is None and '
                   'result[1][1].step is None)'),
]


def register(reg):
    reg.record('ApertureMask', {'data': ('arr', 2, 'real', 'nonempty'), 'bbox': 'BoundingBox'})

    # delegation to the bounding box: same contract, seen through self.bbox
    reg.add(Contract(
        target=f'{M}.get_overlap_slices', props=['C02', 'C01', 'C16'], kind='method',
        params={'self': 'ApertureMask', 'shape': ('tuple', 'int', 'int')},
        requires=VALID, ensures=SLICES,
        returns=[(DISJOINT, ('tuple', 'none', 'none')),
                 (f'not ({DISJOINT})', ('tuple', 'slice2', 'slice2'))],
        mutants=[('self.bbox.get_overlap_slices(shape)', 'self.bbox.get_overlap_slices(shape[::-1])')],
    ))

    oy = 'result[0][0].start'
    ox = 'result[0][1].start'
    common = (f'forall(lambda j, i: CLAUSE, (0, result[0][0].stop - {oy}), '
              f'(0, result[0][1].stop - {ox}))')
    wsrc = f'self.data[j + {oy} - self.bbox.iymin, i + {ox} - self.bbox.ixmin]'

    def cutouts(tag, maskspec, maskclause, muts):
        reg.add(Contract(
            target=f'{M}._get_overlap_cutouts', props=['C02', 'C16', 'C19'], kind='method', tag=tag,
            params={'self': 'ApertureMask', 'shape': ('tuple', 'int', 'int'), 'mask': maskspec},
            requires=VALID + (['mask.shape == shape'] if maskspec != ('const', None) else []),
            ensures=[
                ('none-iff-disjoint', f'iff(result[0] is None, {DISJOINT})'),
                ('all-none', 'implies(result[0] is None, result[1] is None and result[2] is None)'),
                ('large-is-intersection',
                 'implies(not (result[0] is None), '
                 'result[0][0].start == max(self.bbox.iymin, 0) and '
                 'result[0][0].stop == min(self.bbox.iymax, shape[0]) and '
                 'result[0][1].start == max(self.bbox.ixmin, 0) and '
                 'result[0][1].stop == min(self.bbox.ixmax, shape[1]))'),
                ('cutout-shapes',
                 'implies(not (result[0] is None), '
                 f'result[1].shape == (result[0][0].stop - {oy}, result[0][1].stop - {ox}) and '
                 'result[2].shape == result[1].shape)'),
                # the weight of image pixel (j+oy, i+ox) is the mask weight of the same pixel
                ('weights-are-mask-weights',
                 'implies(not (result[0] is None), '
                 + common.replace('CLAUSE', f'result[1][j, i] == {wsrc}') + ')'),
                # good pixels: positive weight and not masked
                ('good-pixels',
                 'implies(not (result[0] is None), '
                 + common.replace('CLAUSE', f'iff(result[2][j, i], {wsrc} > 0{maskclause})') + ')'),
            ],
            returns=[(DISJOINT, ('tuple', 'none', 'none', 'none')),
                     (f'not ({DISJOINT})', ('tuple', 'slice2', ('arr', 2, 'real'),
                                            ('arr', 2, 'bool')))],
            mutants=[('(aper_weights > 0)', '(aper_weights >= 0)'),
                     ('self.data[slc_small]', 'self.data[slc_large]')] + muts,
        ))
    cutouts('no-mask', ('const', None), '', [])
    cutouts('mask', ('arr', 2, 'bool', 'nonempty'),
            f' and not mask[j + {oy}, i + {ox}]',
            [('~mask[slc_large]', '~mask[slc_small]'),
             ('pixel_mask &= ~mask[slc_large]', 'pixel_mask |= ~mask[slc_large]')])

    # do_photometry: the summed bags.  slc_large / aper_weights / pixel_mask are what
    # _get_overlap_cutouts returns (its contract above), data / error are image-shaped.
    env = {'data': ('arr', 2, 'real', 'nonempty'), 'error': ('arr', 2, 'real', 'nonempty'),
           'slc_large': 'slice2', 'aper_weights': ('arr', 2, 'real'),
           'pixel_mask': ('arr', 2, 'bool')}
    pre = ['0 <= slc_large[0].start', 'slc_large[0].start < slc_large[0].stop',
           'slc_large[0].stop <= data.shape[0]',
           '0 <= slc_large[1].start', 'slc_large[1].start < slc_large[1].stop',
           'slc_large[1].stop <= data.shape[1]', 'error.shape == data.shape',
           'aper_weights.shape == (slc_large[0].stop - slc_large[0].start, '
           'slc_large[1].stop - slc_large[1].start)', 'pixel_mask.shape == aper_weights.shape']
    box = '(0, aper_weights.shape[0]), (0, aper_weights.shape[1])'
    reg.add(Contract(
        target=f'{A}.do_photometry', props=['C02', 'C19'], kind='method', stmt='values',
        stmt_like='(data[slc_large] * aper_weights)[pixel_mask]',
        params=env, requires=pre,
        ensures=[
            ('domain', 'shape_of(value) == aper_weights.shape'),
            ('summed-pixels-are-the-good-pixels',
             f'forall(lambda j, i: iff(sel(value, j, i), pixel_mask[j, i]), {box})'),
            ('summed-values-are-weight-times-data',
             'forall(lambda j, i: val(value, j, i) == aper_weights[j, i] * '
             f'data[j + slc_large[0].start, i + slc_large[1].start], {box})'),
        ],
        mutants=[('(data[slc_large] * aper_weights)[pixel_mask]',
                  '(data[slc_large] * aper_weights)[aper_weights > 0]'),
                 ('values = (data[slc_large] * aper_weights)[pixel_mask]',
                  'values = (data[slc_large] * pixel_mask)[pixel_mask]')],
    ))
    reg.add(Contract(
        target=f'{A}.do_photometry', props=['C02', 'C19'], kind='method', stmt='variance',
        stmt_like='(error[slc_large].astype(float) ** 2 * aper_weights)[pixel_mask]',
        params=env, requires=pre,
        ensures=[
            ('domain', 'shape_of(value) == aper_weights.shape'),
            ('same-good-pixels-as-data',
             f'forall(lambda j, i: iff(sel(value, j, i), pixel_mask[j, i]), {box})'),
            ('values-are-weight-times-error-squared',
             'forall(lambda j, i: val(value, j, i) == aper_weights[j, i] * '
             'sq(error[j + slc_large[0].start, i + slc_large[1].start]), ' + box + ')'),
        ],
        mutants=[('error[slc_large].astype(float)**2', 'error[slc_large].astype(float)'),
                 ('error[slc_large].astype(float)**2', 'error[slc_large].astype(float)**2 * aper_weights')],
    ))
