"""C02: the pixel set, weights and values that enter aperture sums.

Chain: BoundingBox.get_overlap_slices (C01, proved) -> ApertureMask.get_overlap_slices ->
ApertureMask._get_overlap_cutouts (weights / good-pixel mask, pointwise) -> statement contracts on
the two sum expressions of PixelAperture.do_photometry (data and error use the same slices and the
same good-pixel mask).  numpy's sum over the selected bag is the trusted lemma L-sum.
"""
from ..pyvc.contracts import Contract

M = 'photutils/aperture/mask.py::ApertureMask'
A = 'photutils/aperture/core.py::PixelAperture'

DISJOINT = ('self.bbox.ixmin >= shape[1] or self.bbox.iymin >= shape[0] or self.bbox.ixmax <= 0 '
            'or self.bbox.iymax <= 0')
VALID = ['self.bbox.ixmin < self.bbox.ixmax', 'self.bbox.iymin < self.bbox.iymax',
         'shape[0] >= 1', 'shape[1] >= 1',
         'self.data.shape == (self.bbox.iymax - self.bbox.iymin, '
         'self.bbox.ixmax - self.bbox.ixmin)']
SLICES = [
    ('none-iff-disjoint', f'iff(result[0] is None, {DISJOINT})'),
    ('both-none', 'iff(result[0] is None, result[1] is None)'),
    ('large-is-intersection',
     'implies(not (result[0] is None), '
     'result[0][0].start == max(self.bbox.iymin, 0) and '
     'result[0][0].stop == min(self.bbox.iymax, shape[0]) and '
     'result[0][1].start == max(self.bbox.ixmin, 0) and '
     'result[0][1].stop == min(self.bbox.ixmax, shape[1]))'),
    ('small-is-shifted-large',
     'implies(not (result[0] is None), '
     'result[1][0].start == result[0][0].start - self.bbox.iymin and '
     'result[1][0].stop == result[0][0].stop - self.bbox.iymin and '
     'result[1][1].start == result[0][1].start - self.bbox.ixmin and '
     'result[1][1].stop == result[0][1].stop - self.bbox.ixmin)'),
    ('steps-none', 'implies(not (result[0] is None), result[0][0].step is None and '
                   'result[0][1].step is None and result[1][0].step is None and '
                   'result[1][1].step is None)'),
]


def register(reg):
    register_nddata(reg)
    register_area_overlap(reg)
    reg.record('ApertureMask', {'data': ('arr', 2, 'real', 'nonempty'), 'bbox': 'BoundingBox',
                                '_mask': ('arr', 2, 'bool')})
    register_mask_images(reg)
    register_multiply(reg)
    register_get_values(reg)

    # delegation to the bounding box: same contract, seen through self.bbox
    reg.add(Contract(
        target=f'{M}.get_overlap_slices', props=['C02', 'C01', 'C16'], kind='method',
        params={'self': 'ApertureMask', 'shape': ('tuple', 'int', 'int')},
        requires=VALID, ensures=SLICES,
        returns=[(DISJOINT, ('tuple', 'none', 'none')),
                 (f'not ({DISJOINT})', ('tuple', 'slice2', 'slice2'))],
        mutants=[('self.bbox.get_overlap_slices(shape)', 'self.bbox.get_overlap_slices(shape[::-1])')],
    ))

    oy = 'result[0][0].start'
    ox = 'result[0][1].start'
    common = (f'forall(lambda j, i: CLAUSE, (0, result[0][0].stop - {oy}), '
              f'(0, result[0][1].stop - {ox}))')
    wsrc = f'self.data[j + {oy} - self.bbox.iymin, i + {ox} - self.bbox.ixmin]'

    def cutouts(tag, maskspec, maskclause, muts):
        reg.add(Contract(
            target=f'{M}._get_overlap_cutouts', props=['C02', 'C16', 'C19'], kind='method', tag=tag,
            params={'self': 'ApertureMask', 'shape': ('tuple', 'int', 'int'), 'mask': maskspec},
            requires=VALID + (['mask.shape == shape'] if maskspec != ('const', None) else []),
            ensures=[
                ('none-iff-disjoint', f'iff(result[0] is None, {DISJOINT})'),
                ('all-none', 'implies(result[0] is None, result[1] is None and result[2] is None)'),
                ('large-is-intersection',
                 'implies(not (result[0] is None), '
                 'result[0][0].start == max(self.bbox.iymin, 0) and '
                 'result[0][0].stop == min(self.bbox.iymax, shape[0]) and '
                 'result[0][1].start == max(self.bbox.ixmin, 0) and '
                 'result[0][1].stop == min(self.bbox.ixmax, shape[1]))'),
                ('cutout-shapes',
                 'implies(not (result[0] is None), '
                 f'result[1].shape == (result[0][0].stop - {oy}, result[0][1].stop - {ox}) and '
                 'result[2].shape == result[1].shape)'),
                # the weight of image pixel (j+oy, i+ox) is the mask weight of the same pixel
                ('weights-are-mask-weights',
                 'implies(not (result[0] is None), '
                 + common.replace('CLAUSE', f'result[1][j, i] == {wsrc}') + ')'),
                # good pixels: positive weight and not masked
                ('good-pixels',
                 'implies(not (result[0] is None), '
                 + common.replace('CLAUSE', f'iff(result[2][j, i], {wsrc} > 0{maskclause})') + ')'),
            ],
            returns=[(DISJOINT, ('tuple', 'none', 'none', 'none')),
                     (f'not ({DISJOINT})', ('tuple', 'slice2', ('arr', 2, 'real'),
                                            ('arr', 2, 'bool')))],
            mutants=[('(aper_weights > 0)', '(aper_weights >= 0)'),
                     ('self.data[slc_small]', 'self.data[slc_large]')] + muts,
        ))
    cutouts('no-mask', ('const', None), '', [])
    cutouts('mask', ('arr', 2, 'bool', 'nonempty'),
            f' and not mask[j + {oy}, i + {ox}]',
            [('~mask[slc_large]', '~mask[slc_small]'),
             ('pixel_mask &= ~mask[slc_large]', 'pixel_mask |= ~mask[slc_large]')])

    # do_photometry: the summed bags.  slc_large / aper_weights / pixel_mask are what
    # _get_overlap_cutouts returns (its contract above), data / error are image-shaped.
    env = {'data': ('arr', 2, 'real', 'nonempty'), 'error': ('arr', 2, 'real', 'nonempty', 'anydtype'),
           'slc_large': 'slice2', 'aper_weights': ('arr', 2, 'real'),
           'pixel_mask': ('arr', 2, 'bool')}
    pre = ['0 <= slc_large[0].start', 'slc_large[0].start < slc_large[0].stop',
           'slc_large[0].stop <= data.shape[0]',
           '0 <= slc_large[1].start', 'slc_large[1].start < slc_large[1].stop',
           'slc_large[1].stop <= data.shape[1]', 'error.shape == data.shape',
           'aper_weights.shape == (slc_large[0].stop - slc_large[0].start, '
           'slc_large[1].stop - slc_large[1].start)', 'pixel_mask.shape == aper_weights.shape']
    box = '(0, aper_weights.shape[0]), (0, aper_weights.shape[1])'
    reg.add(Contract(
        target=f'{A}.do_photometry', props=['C02', 'C19'], kind='method', stmt='values',
        stmt_like='(data[slc_large] * aper_weights)[pixel_mask]',
        params=env, requires=pre,
        ensures=[
            ('domain', 'shape_of(value) == aper_weights.shape'),
            ('summed-pixels-are-the-good-pixels',
             f'forall(lambda j, i: iff(sel(value, j, i), pixel_mask[j, i]), {box})'),
            ('summed-values-are-weight-times-data',
             'forall(lambda j, i: val(value, j, i) == aper_weights[j, i] * '
             f'data[j + slc_large[0].start, i + slc_large[1].start], {box})'),
        ],
        mutants=[('(data[slc_large] * aper_weights)[pixel_mask]',
                  '(data[slc_large] * aper_weights)[aper_weights > 0]'),
                 ('values = (data[slc_large] * aper_weights)[pixel_mask]',
                  'values = (data[slc_large] * pixel_mask)[pixel_mask]')],
    ))
    reg.add(Contract(
        target=f'{A}.do_photometry', props=['C02', 'C19', 'C15'], kind='method', stmt='variance',
        stmt_like='(error[slc_large].astype(float) ** 2 * aper_weights)[pixel_mask]',
        params=env, requires=pre,
        ensures=[
            ('domain', 'shape_of(value) == aper_weights.shape'),
            ('same-good-pixels-as-data',
             f'forall(lambda j, i: iff(sel(value, j, i), pixel_mask[j, i]), {box})'),
            ('values-are-weight-times-error-squared',
             'forall(lambda j, i: val(value, j, i) == aper_weights[j, i] * '
             'sq(error[j + slc_large[0].start, i + slc_large[1].start]), ' + box + ')'),
        ],
        mutants=[('error[slc_large].astype(float)**2', 'error[slc_large]**2'),
                 ('error[slc_large].astype(float)**2', 'error[slc_large].astype(float)'),
                 ('error[slc_large].astype(float)**2', 'error[slc_large].astype(float)**2 * aper_weights')],
    ))


def register_get_values(reg):
    """ApertureMask.get_values(data, mask): the bag of weight * data over exactly the pixels of
    the box that lie on the image, have positive weight and are not masked -- the *whole function*,
    through the _get_overlap_cutouts contract (this is what LocalBackground, the profile classes and
    the sigma-clipped statistics read)."""
    DIS = DISJOINT.replace('shape[', 'data.shape[')
    valid = [v.replace('shape[0]', 'data.shape[0]').replace('shape[1]', 'data.shape[1]')
             if 'self.data.shape' not in v else v for v in VALID]
    oy, ox = 'max(self.bbox.iymin, 0)', 'max(self.bbox.ixmin, 0)'
    box = (f'(0, min(self.bbox.iymax, data.shape[0]) - {oy}), '
           f'(0, min(self.bbox.ixmax, data.shape[1]) - {ox})')
    w = f'self.data[j + {oy} - self.bbox.iymin, i + {ox} - self.bbox.ixmin]'
    for tag, mspec, mcl, mreq in (
            ('mask', ('arr', 2, 'bool', 'nonempty'), f' and not mask[j + {oy}, i + {ox}]',
             ['mask.shape == data.shape']),
            ('no-mask', ('const', None), '', [])):
        reg.add(Contract(
            target=f'{M}.get_values', props=['C02', 'C12', 'C19'], kind='method',
            tag='overlap-' + tag,
            params={'self': 'ApertureMask', 'data': ('arr', 2, 'real', 'nonfinite', 'nonempty'),
                    'mask': mspec},
            requires=valid + mreq + [f'not ({DIS})'],
            ensures=[
                ('domain', f'shape_of(result) == (min(self.bbox.iymax, data.shape[0]) - {oy}, '
                           f'min(self.bbox.ixmax, data.shape[1]) - {ox})'),
                ('selected-pixels-positive-weight-unmasked',
                 f'forall(lambda j, i: iff(sel(result, j, i), {w} > 0{mcl}), {box})'),
                ('values-are-weight-times-data',
                 f'forall(lambda j, i: val(result, j, i) == {w} * data[j + {oy}, i + {ox}], '
                 f'{box})'),
            ],
            mutants=([('(data[slc_large] * aper_weights)[pixel_mask]',
                       '(data[slc_large] * aper_weights)[aper_weights > 0]')] if mcl else [])
            + [('(data[slc_large] * aper_weights)[pixel_mask]',
                      '(data[slc_large] * pixel_mask)[pixel_mask]'),
                     ('data.shape, mask=mask)', 'data.shape, mask=None)') if mcl else
                     ('(data[slc_large] * aper_weights)[pixel_mask]',
                      '(data[slc_large] + aper_weights)[pixel_mask]')],
        ))
        reg.add(Contract(
            target=f'{M}.get_values', props=['C02', 'C12', 'C19'], kind='method',
            tag='disjoint-' + tag,
            params={'self': 'ApertureMask', 'data': ('arr', 2, 'real', 'nonfinite', 'nonempty'),
                    'mask': mspec},
            requires=valid + mreq + [DIS],
            ensures=[('empty', 'result.shape == (0,)')],
            mutants=[('return np.array([])', 'return np.array([0.0])')],
        ))


def register_mask_images(reg):
    """ApertureMask.to_image / cutout: the mask weight of image pixel (y, x) lands on image pixel
    (y, x); data pixel (y, x) lands on cutout pixel (y - iymin, x - ixmin); everything else is the
    fill value; None iff the box misses the image (through the get_overlap_slices contract)."""
    inside = ('self.bbox.iymin <= y and y < self.bbox.iymax and self.bbox.ixmin <= x and '
              'x < self.bbox.ixmax')
    reg.add(Contract(
        target=f'{M}.to_image', props=['C01', 'C02'], kind='method',
        params={'self': 'ApertureMask', 'shape': ('tuple', 'int', 'int'),
                'dtype': ('const', 'float')},
        requires=VALID,
        returns=[(DISJOINT, None), (f'not ({DISJOINT})', ('arr', 2, 'real'))],
        ensures=[
            ('none-iff-disjoint', f'iff(result is None, {DISJOINT})'),
            ('image-shape', 'implies(not (result is None), result.shape == shape)'),
            ('weights-at-their-own-pixels-zero-elsewhere',
             'implies(not (result is None), forall(lambda y, x: result[y, x] == '
             f'ite({inside}, self.data[y - self.bbox.iymin, x - self.bbox.ixmin], 0), '
             '(0, shape[0]), (0, shape[1])))'),
        ],
        mutants=[('image[slices_large] = self.data[slices_small]',
                  'image[slices_small] = self.data[slices_large]'),
                 ('image = np.zeros(shape, dtype=dtype)', 'image = np.ones(shape, dtype=dtype)')],
    ))
    for copy in (False, True):
        reg.add(Contract(
            target=f'{M}.cutout', props=['C01', 'C02'], kind='method', tag=f'copy={copy}',
            defaults={'copy': False, 'fill_value': 0.0},
            params={'self': 'ApertureMask', 'data': ('arr', 2, 'real', 'nonempty'),
                    'fill_value': 'real', 'copy': ('const', copy)},
            requires=[v.replace('shape[0]', 'data.shape[0]').replace('shape[1]', 'data.shape[1]')
                      if 'self.data.shape' not in v else v for v in VALID],
            returns=[(DISJOINT.replace('shape[', 'data.shape['), None),
                     ('not (' + DISJOINT.replace('shape[', 'data.shape[') + ')',
                      ('arr', 2, 'real'))],
            ensures=[
                ('none-iff-disjoint',
                 'iff(result is None, ' + DISJOINT.replace('shape[', 'data.shape[') + ')'),
                ('box-shape', 'implies(not (result is None), result.shape == self.data.shape)'),
                ('data-at-box-relative-pixels-fill-elsewhere',
                 'implies(not (result is None), forall(lambda j, i: result[j, i] == '
                 'ite(0 <= j + self.bbox.iymin and j + self.bbox.iymin < data.shape[0] and '
                 '0 <= i + self.bbox.ixmin and i + self.bbox.ixmin < data.shape[1], '
                 'data[j + self.bbox.iymin, i + self.bbox.ixmin], fill_value), '
                 '(0, self.data.shape[0]), (0, self.data.shape[1])))'),
            ],
            mutants=[('cutout[slices_small] = data[slices_large]',
                      'cutout[slices_small] = data[slices_small]'),
                     ('cutout[:] = fill_value', 'cutout[:] = 0')],
        ))


def register_multiply(reg):
    DIS = DISJOINT.replace('shape[', 'data.shape[')
    # class invariant established by the constructor: _mask marks the zero-weight pixels and the
    # data array has the shape of the bounding box
    reg.record('ApertureMaskNew', {})
    reg.add(Contract(
        target=f'{M}.__init__', props=['C01', 'C02'], kind='method',
        params={'self': 'ApertureMaskNew', 'data': ('arr', 2, 'real', 'nonempty'),
                'bbox': 'BoundingBox'},
        requires=['bbox.ixmin < bbox.ixmax', 'bbox.iymin < bbox.iymax'],
        raises=[('ValueError', 'data.shape != (bbox.iymax - bbox.iymin, bbox.ixmax - bbox.ixmin)')],
        ensures=[('mask-marks-zero-weights',
                  'self._mask.shape == data.shape and forall(lambda j, i: iff(self._mask[j, i], '
                  'data[j, i] == 0), (0, data.shape[0]), (0, data.shape[1]))'),
                 ('stores-data-and-box',
                  'self.data.shape == data.shape and forall(lambda j, i: self.data[j, i] == '
                  'data[j, i], (0, data.shape[0]), (0, data.shape[1])) and '
                  'self.bbox.ixmin == bbox.ixmin and self.bbox.iymax == bbox.iymax')],
        mutants=[('self._mask = (self.data == 0)', 'self._mask = (self.data <= 0)'),
                 ('if self.data.shape != bbox.shape:', 'if self.data.shape == bbox.shape:')],
    ))
    reg.add(Contract(
        target=f'{M}.multiply', props=['C01', 'C02'], kind='method',
        params={'self': 'ApertureMask', 'data': ('arr', 2, 'real', 'nonempty'),
                'fill_value': 'real'},
        requires=[v.replace('shape[0]', 'data.shape[0]').replace('shape[1]', 'data.shape[1]')
                  if 'self.data.shape' not in v else v for v in VALID]
        + ['self._mask.shape == self.data.shape',
           'forall(lambda j, i: iff(self._mask[j, i], self.data[j, i] == 0), '
           '(0, self.data.shape[0]), (0, self.data.shape[1]))'],
        returns=[(DIS, None), (f'not ({DIS})', ('arr', 2, 'real'))],
        ensures=[
            ('none-iff-disjoint', f'iff(result is None, {DIS})'),
            ('weight-times-data-inside-the-shape-fill-outside',
             'implies(not (result is None), result.shape == self.data.shape and '
             'forall(lambda j, i: result[j, i] == ite(self.data[j, i] == 0, fill_value, '
             'self.data[j, i] * ite(0 <= j + self.bbox.iymin and j + self.bbox.iymin < '
             'data.shape[0] and 0 <= i + self.bbox.ixmin and i + self.bbox.ixmin < data.shape[1], '
             'data[j + self.bbox.iymin, i + self.bbox.ixmin], fill_value)), '
             '(0, self.data.shape[0]), (0, self.data.shape[1])))'),
        ],
        mutants=[('weighted_cutout[self._mask] = fill_value', 'weighted_cutout[~self._mask] = fill_value'),
                 ('weighted_cutout = cutout * self.data', 'weighted_cutout = cutout + self.data')],
    ))


def register_nddata(reg):
    """C02 "NDData or bare-array call forms": the NDData form of aperture_photometry is the
    bare-array form on the container's own data, mask and uncertainty array with the *same*
    apertures, method and subpixels (apphot_ names what the bare-array form returns, by the
    identity of the arrays; unit-less container, StdDevUncertainty)."""
    AP = 'photutils/aperture/photometry.py::aperture_photometry'
    reg.record('ApertureToken', {'idx': 'int'})
    args = 'id_(data), apertures.idx, id_(error), id_(mask), code_(method), subpixels'
    reg.add(Contract(
        target=AP, props=['C02'], tag='array-form',
        params={'data': ('arr', 2, 'real'), 'apertures': 'ApertureToken',
                'error': ('opt', ('arr', 2, 'real')), 'mask': ('opt', ('arr', 2, 'bool')),
                'method': 'str', 'subpixels': 'int', 'wcs': None},
        defaults={'error': None, 'mask': None, 'method': 'exact', 'subpixels': 5, 'wcs': None},
        ensures=[('names-the-table', f'result == apphot_({args})')],
        returns='real', assumed=True,
        note='apphot_ names the table aperture_photometry returns for bare arrays (what it '
             'contains is the business of the do_photometry contracts and the bounded driver)',
    ))
    reg.record('StdDevUncertainty', {'array': ('arr', 2, 'real'), 'unit': ('const', None)})
    for tag, uspec in (('with-uncertainty', 'StdDevUncertainty'), ('no-uncertainty', ('const', None))):
        reg.record('NDData@' + tag, {'data': ('arr', 2, 'real'), 'mask': ('arr', 2, 'bool'),
                                     'wcs': ('const', None), 'unit': ('const', None),
                                     'uncertainty': uspec}, bases=('NDData',))
        err = 'id_(data.uncertainty.array)' if uspec == 'StdDevUncertainty' else '0'
        for meth in ('exact', 'subpixel'):
            reg.add(Contract(
                target=AP, props=['C02'], tag=f'nddata-form-{tag}-{meth}',
                params={'data': 'NDData@' + tag, 'apertures': 'ApertureToken',
                        'error': ('const', None), 'mask': ('const', None),
                        'method': ('const', meth), 'subpixels': 'pos', 'wcs': ('const', None)},
                ensures=[('same-as-the-bare-array-form-on-the-containers-arrays',
                          f'result == apphot_(id_(data.data), apertures.idx, {err}, id_(data.mask), '
                          f'code_("{meth}"), subpixels)')],
                mutants=[('method=method, subpixels=subpixels,', 'method=method,'),
                         ('error=error, mask=mask,', 'error=error,'),
                         ('mask = data.mask', 'mask = None')]
                + ([('error = data.uncertainty.array', 'error = None')]
                   if uspec == 'StdDevUncertainty' else []),
            ))


def register_area_overlap(reg):
    """PixelAperture.area_overlap (used by ApertureStats and the profiles): the overlap area of one
    position is the sum over the common pixels of the aperture weight, a masked pixel counting
    zero -- whatever its weight was."""
    A_ = 'photutils/aperture/core.py::PixelAperture'
    pre = ['0 <= slc_large[0].start', 'slc_large[0].start < slc_large[0].stop',
           '0 <= slc_large[1].start', 'slc_large[1].start < slc_large[1].stop',
           '0 <= slc_small[0].start', '0 <= slc_small[1].start',
           'slc_small[0].stop - slc_small[0].start == slc_large[0].stop - slc_large[0].start',
           'slc_small[1].stop - slc_small[1].start == slc_large[1].stop - slc_large[1].start',
           'slc_small[0].stop <= apermask.data.shape[0]',
           'slc_small[1].stop <= apermask.data.shape[1]']
    box = ('(0, slc_large[0].stop - slc_large[0].start), '
           '(0, slc_large[1].stop - slc_large[1].start)')
    w0 = 'old_apermask.data[j + slc_small[0].start, i + slc_small[1].start]'
    for tag, mspec in (('mask', ('arr', 2, 'bool')), ('nomask', ('const', None))):
        mreq = ['slc_large[0].stop <= mask.shape[0]', 'slc_large[1].stop <= mask.shape[1]'] \
            if tag == 'mask' else []
        term = (f'ite(mask[j + slc_large[0].start, i + slc_large[1].start], 0, {w0})'
                if tag == 'mask' else w0)
        reg.add(Contract(
            target=f'{A_}.area_overlap', props=['C02', 'C16', 'C19'], kind='method',
            tag='area-' + tag, block=('aper_weights', 'area'),
            params={'apermask': ('record', 'ApertureMaskData', {'data': ('arr', 2, 'real')}),
                    'slc_large': 'slice2', 'slc_small': 'slice2', 'mask': mspec},
            requires=pre + mreq,
            ensures=[('summed-over-the-common-pixels',
                      'shape_of(area) == (slc_large[0].stop - slc_large[0].start, '
                      'slc_large[1].stop - slc_large[1].start) and '
                      f'forall(lambda j, i: sel(area, j, i), {box})'),
                     ('each-pixel-counts-its-weight-masked-pixels-zero',
                      f'forall(lambda j, i: val(area, j, i) == {term}, {box})')],
            mutants=[('apermask.data[slc_small]', 'apermask.data[slc_large]')]
            + ([('aper_weights[mask[slc_large]] = 0.0', 'aper_weights[mask[slc_small]] = 0.0'),
                ('aper_weights[mask[slc_large]] = 0.0', 'aper_weights[~mask[slc_large]] = 0.0'),
                ('aper_weights[mask[slc_large]] = 0.0', 'aper_weights[mask[slc_large]] = 1.0')]
               if tag == 'mask' else []),
        ))
