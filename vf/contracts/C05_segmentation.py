"""C05 -- "the label array equals the documented set-theoretic effect of the operations": the
lookup-table relabelling at the heart of reassign_labels (and through it keep / remove labels,
border and mask removal) and of relabel_consecutive, for every label array."""
from ..pyvc.contracts import Contract

SEG = 'photutils/segmentation/core.py::SegmentationImage'


def register(reg):
    register_border(reg)
    register_keep(reg)
    reg.record('SegmentationImage', {'data': ('arr', 2, 'int'), 'labels': ('seq', 'int'),
                                     'max_label': 'int', 'nlabels': 'int'})
    box = '(0, self.data.shape[0]), (0, self.data.shape[1])'
    # class invariant of the label bookkeeping (C05: "never names a label that is absent"):
    # labels are the distinct positive values of the array in increasing order
    inv = [
        'len(self.labels) == self.nlabels',
        'forall(lambda k: self.labels[k] > 0 and self.labels[k] <= self.max_label, '
        '(0, len(self.labels)))',
        'forall(lambda k, m: implies(k < m, self.labels[k] < self.labels[m]), '
        '(0, len(self.labels)), (0, len(self.labels)))',
        f'forall(lambda i, j: self.data[i, j] >= 0 and self.data[i, j] <= self.max_label, {box})',
        f'forall(lambda i, j: implies(self.data[i, j] != 0, exists(lambda k: '
        f'self.labels[k] == self.data[i, j], (0, len(self.labels)))), {box})',
    ]
    isin = 'exists(lambda k: labels[k] == old_self.data[i, j], (0, len(labels)))'
    reg.add(Contract(
        target=f'{SEG}.reassign_labels', props=['C05'], kind='method',
        block=('relabel_map', 'data_new'), tag='lookup-table',
        block_like='np.zeros(self.max_label + 1, dtype=dtype)',
        params={'self': 'SegmentationImage', 'labels': ('seq', 'int'), 'new_label': 'nat',
                'relabel': ('const', False), 'dtype': ('const', 'int')},
        requires=inv + [
            # check_labels: the labels to reassign are labels of the image
            'forall(lambda k: exists(lambda m: self.labels[m] == labels[k], '
            '(0, len(self.labels))), (0, len(labels)))'],
        ensures=[
            ('shape', 'data_new.shape == self.data.shape'),
            ('listed-labels-become-new-label-everything-else-unchanged',
             f'forall(lambda i, j: data_new[i, j] == ite({isin}, new_label, '
             f'old_self.data[i, j]), {box})'),
            ('input-array-untouched',
             f'forall(lambda i, j: self.data[i, j] == old_self.data[i, j], {box})'),
        ],
        mutants=[('relabel_map[labels] = new_label', 'relabel_map[self.labels] = new_label'),
                 ('relabel_map[self.labels] = self.labels', 'relabel_map[self.labels] = 1'),
                 ('data_new = relabel_map[self.data]', 'data_new = relabel_map[self.data] + 0 * new_label + 1')],
    ))
    reg.add(Contract(
        target=f'{SEG}.relabel_consecutive', props=['C05'], kind='method',
        block=('new_labels', 'data_new'), tag='lookup-table',
        block_like='np.arange(self.nlabels, dtype=dtype) + start_label',
        params={'self': 'SegmentationImage', 'start_label': 'pos', 'dtype': ('const', 'int')},
        requires=inv,
        ensures=[
            ('shape', 'data_new.shape == self.data.shape'),
            ('background-stays-zero',
             f'forall(lambda i, j: implies(old_self.data[i, j] == 0, data_new[i, j] == 0), {box})'),
            ('kth-label-becomes-start-plus-k',
             f'forall(lambda i, j: forall(lambda k: implies(old_self.data[i, j] == '
             f'self.labels[k], data_new[i, j] == start_label + k), (0, len(self.labels))), {box})'),
            ('new-labels-are-consecutive',
             'len(new_labels) == self.nlabels and forall(lambda k: new_labels[k] == '
             'start_label + k, (0, self.nlabels))'),
        ],
        mutants=[('new_labels = np.arange(self.nlabels, dtype=dtype) + start_label',
                  'new_labels = np.arange(self.nlabels, dtype=dtype) + start_label + 1'),
                 ('new_label_map[self.labels] = new_labels', 'new_label_map[new_labels] = self.labels'),
                 ('data_new = new_label_map[self.data]', 'data_new = new_label_map[self.data] * 1 + 0 + (self.data > 0)')],
    ))
    register_shortcut(reg)


def register_keep(reg):
    """keep_labels "equals the documented set-theoretic effect": the labels handed to
    remove_labels are exactly the labels of the image that are not to be kept, each once."""
    reg.record('SegmentationImageLabels', {'labels': ('seq', 'int')})
    val = 'value[k]'
    reg.add(Contract(
        target=f'{SEG}.keep_labels', props=['C05'], kind='method', stmt='labels_tmp',
        params={'self': 'SegmentationImageLabels', 'labels': ('seq', 'int')},
        ensures=[
            ('only-labels-of-the-image-that-are-not-kept',
             f'forall(lambda k: exists(lambda m: self.labels[m] == {val}, (0, len(self.labels))) '
             f'and not exists(lambda n: labels[n] == {val}, (0, len(labels))), (0, len(value)))'),
            ('every-label-of-the-image-is-kept-or-listed',
             'forall(lambda m: exists(lambda n: labels[n] == self.labels[m], (0, len(labels))) '
             'or exists(lambda k: value[k] == self.labels[m], (0, len(value))), '
             '(0, len(self.labels)))'),
            ('listed-once',
             'forall(lambda k, m: implies(k != m, value[k] != value[m]), (0, len(value)), '
             '(0, len(value)))'),
        ],
        mutants=[('set(self.labels) - set(labels)', 'set(labels) - set(self.labels)'),
                 ('set(self.labels) - set(labels)', 'set(self.labels) | set(labels)'),
                 ('set(self.labels) - set(labels)', 'set(self.labels) & set(labels)'),
                 ('set(self.labels) - set(labels)', 'set(self.labels)')],
    ))
    reg.record('SegmentationImageMissing', {'labels': ('seq', 'int'), 'max_label': 'nat'})
    isl = lambda x: f'exists(lambda m: self.labels[m] == {x}, (0, len(self.labels)))'  # noqa: E731
    reg.add(Contract(
        target=f'{SEG}.missing_labels', props=['C05'], kind='property',
        params={'self': 'SegmentationImageMissing'},
        ensures=[
            ('strictly-increasing',
             'forall(lambda k, m: implies(k < m, result[k] < result[m]), (0, len(result)), '
             '(0, len(result)))'),
            ('only-absent-numbers-between-one-and-the-maximum',
             f'forall(lambda k: result[k] >= 1 and result[k] <= self.max_label and '
             f'not {isl("result[k]")}, (0, len(result)))'),
            ('every-absent-number-is-listed',
             f'forall(lambda x: {isl("x")} or exists(lambda k: result[k] == x, '
             '(0, len(result))), (1, self.max_label + 1))'),
        ],
        mutants=[('set(range(self.max_label + 1))', 'set(range(self.max_label))'),
                 ('np.insert(self.labels, 0, 0)', 'self.labels'),
                 ('.difference(', '.intersection(')],
    ))
    # get_index: the position of a label in the sorted label list (check_labels, assumed, raises
    # for a label that is not in the image)
    reg.record('SegmentationImageIndex', {'labels': ('seq', 'int')}, bases=('SegmentationImage',))
    reg.add(Contract(
        target=f'{SEG}.check_labels', props=['C05'], kind='method',
        params={'self': 'SegmentationImageIndex', 'labels': 'int'},
        requires=['exists(lambda k: self.labels[k] == labels, (0, len(self.labels)))'],
        ensures=[], returns=None, assumed=True,
        note='check_labels raises ValueError unless every given label is a positive label of the '
             'image (its own logic -- np.setdiff1d -- is exercised by the bounded driver)',
    ))
    reg.add(Contract(
        target=f'{SEG}.get_index', props=['C05', 'C07'], kind='method',
        params={'self': 'SegmentationImageIndex', 'label': 'int'},
        requires=['forall(lambda k, m: implies(k < m, self.labels[k] < self.labels[m]), '
                  '(0, len(self.labels)), (0, len(self.labels)))',
                  'exists(lambda k: self.labels[k] == label, (0, len(self.labels)))'],
        ensures=[('the-position-of-the-label',
                  'result >= 0 and result < len(self.labels) and self.labels[result] == label')],
        mutants=[('np.searchsorted(self.labels, label)', 'np.searchsorted(self.labels, label) - 1'),
                 ('np.searchsorted(self.labels, label)', 'np.searchsorted(self.labels, label + 1)')],
    ))
    reg.add(Contract(
        target=f'{SEG}.check_labels', props=['C05'], kind='method', tag='many',
        params={'self': 'SegmentationImageIndex', 'labels': ('seq', 'int')},
        requires=['forall(lambda q: exists(lambda k: self.labels[k] == labels[q], '
                  '(0, len(self.labels))), (0, len(labels)))'],
        ensures=[], returns=None, assumed=True,
        note='check_labels (sequence form): every given label is a label of the image',
    ))
    reg.add(Contract(
        target=f'{SEG}.get_indices', props=['C05', 'C06', 'C07'], kind='method',
        params={'self': 'SegmentationImageIndex', 'labels': ('seq', 'int')},
        requires=['forall(lambda k, m: implies(k < m, self.labels[k] < self.labels[m]), '
                  '(0, len(self.labels)), (0, len(self.labels)))',
                  'forall(lambda q: exists(lambda k: self.labels[k] == labels[q], '
                  '(0, len(self.labels))), (0, len(labels)))'],
        ensures=[('one-index-per-requested-label-in-the-order-requested',
                  'len(result) == len(labels) and forall(lambda q: result[q] >= 0 and '
                  'result[q] < len(self.labels) and self.labels[result[q]] == labels[q], '
                  '(0, len(labels)))')],
        returns=('seq', 'int'),
        mutants=[('np.searchsorted(self.labels, labels)', 'np.searchsorted(self.labels, labels) - 1'),
                 ('np.searchsorted(self.labels, labels)', 'np.searchsorted(self.labels, self.labels)')],
    ))
    # areas: entry k counts the pixels of label k inside slices k; get_areas pairs each requested
    # label with the area of *that* label
    reg.record('SegmentationImageAreas', {'labels': ('seq', 'int'), 'slices': ('seq', 'slice2'),
                                          '_data': ('arr', 2, 'int')})
    sl = 'self.slices[k]'
    reg.add(Contract(
        target=f'{SEG}.areas', props=['C05', 'C04'], kind='property',
        params={'self': 'SegmentationImageAreas'},
        requires=['len(self.labels) == len(self.slices)',
                  f'forall(lambda k: 0 <= {sl}[0].start and {sl}[0].start < {sl}[0].stop and '
                  f'{sl}[0].stop <= self._data.shape[0] and 0 <= {sl}[1].start and '
                  f'{sl}[1].start < {sl}[1].stop and {sl}[1].stop <= self._data.shape[1], '
                  '(0, len(self.slices)))'],
        ensures=[('one-per-label', 'len(result) == len(self.labels)'),
                 ('pixels-of-label-k-inside-its-slices',
                  f'forall(lambda k: result[k] == np.count_nonzero(self._data[{sl}] == '
                  'self.labels[k]), (0, len(result)))')],
        mutants=[('self._data[slices] == label', 'self._data[slices] != 0'),
                 ('zip(self.labels, self.slices, strict=True)', 'zip(self.labels[::-1], self.slices, strict=True)')],
    ))
    reg.record('SegmentationImageGetAreas', {'labels': ('seq', 'int'), 'areas': ('arr', 1, 'int')},
               bases=('SegmentationImage',))
    reg.add(Contract(
        target=f'{SEG}.get_areas', props=['C05', 'C07'], kind='method',
        params={'self': 'SegmentationImageGetAreas', 'labels': ('seq', 'int')},
        requires=['self.areas.shape[0] == len(self.labels)',
                  'forall(lambda k, m: implies(k < m, self.labels[k] < self.labels[m]), '
                  '(0, len(self.labels)), (0, len(self.labels)))',
                  'forall(lambda q: exists(lambda k: self.labels[k] == labels[q], '
                  '(0, len(self.labels))), (0, len(labels)))'],
        ensures=[('the-area-of-each-requested-label-in-the-order-requested',
                  'len(result) == len(labels) and forall(lambda q: exists(lambda k: '
                  'self.labels[k] == labels[q] and result[q] == self.areas[k], '
                  '(0, len(self.labels))), (0, len(labels)))')],
        mutants=[('return self.areas[idx]', 'return self.areas[idx[::-1]]'),
                 ('return self.areas[idx]', 'return self.areas[:len(idx)]')],
    ))
    # remove_masked_labels(partial_overlap=False): of the labels touching the mask, only those
    # without a pixel outside it are removed
    reg.add(Contract(
        target=f'{SEG}.remove_masked_labels', props=['C05'], kind='method', stmt='remove_labels',
        stmt_like='list(set(remove_labels) - set(interior_labels))', tag='fully-masked-only',
        params={'remove_labels': ('seq', 'int'), 'interior_labels': ('seq', 'int')},
        ensures=[
            ('only-touching-labels-without-a-pixel-outside',
             'forall(lambda k: exists(lambda m: remove_labels[m] == value[k], '
             '(0, len(remove_labels))) and not exists(lambda n: interior_labels[n] == value[k], '
             '(0, len(interior_labels))), (0, len(value)))'),
            ('every-touching-label-is-interior-or-listed',
             'forall(lambda m: exists(lambda n: interior_labels[n] == remove_labels[m], '
             '(0, len(interior_labels))) or exists(lambda k: value[k] == remove_labels[m], '
             '(0, len(value))), (0, len(remove_labels)))'),
        ],
        mutants=[('set(remove_labels) - set(interior_labels)',
                  'set(interior_labels) - set(remove_labels)'),
                 ('set(remove_labels) - set(interior_labels)',
                  'set(remove_labels) & set(interior_labels)'),
                 ('set(remove_labels) - set(interior_labels)', 'set(remove_labels)')],
    ))


def register_border(reg):
    """remove_border_labels: the border mask is True exactly on the pixels within border_width of
    an image edge -- so "a zero border width removes nothing" -- for every image shape."""
    reg.record('SegmentationImageShape', {'shape': ('tuple', 'pos', 'pos')})
    reg.add(Contract(
        target=f'{SEG}.remove_border_labels', props=['C05'], kind='method',
        block=('border_mask', 'border_mask'), tag='border-mask',
        block_like='np.zeros(self.shape, dtype=bool)',
        params={'self': 'SegmentationImageShape', 'border_width': 'nat'},
        requires=['2 * border_width < self.shape[0]', '2 * border_width < self.shape[1]'],
        ensures=[
            ('shape', 'border_mask.shape == self.shape'),
            ('true-exactly-within-border-width-of-an-edge',
             'forall(lambda i, j: iff(border_mask[i, j], i < border_width or '
             'i >= self.shape[0] - border_width or j < border_width or '
             'j >= self.shape[1] - border_width), (0, self.shape[0]), (0, self.shape[1]))'),
            ('zero-width-selects-nothing',
             'implies(border_width == 0, forall(lambda i, j: not border_mask[i, j], '
             '(0, self.shape[0]), (0, self.shape[1])))'),
        ],
        mutants=[('border_mask[border_mask.shape[0] - border_width:] = True',
                  'border_mask[-border_width:] = True'),
                 ('border_mask[:border_width] = True', 'border_mask[:border_width + 1] = True'),
                 ('for i in range(border_mask.ndim):', 'for i in range(1):')],
    ))


def _shortcut_lemma(verifier, c, fdef, consts, tree):
    """relabel_consecutive returns early, leaving the data alone, when its "already consecutive"
    test holds.  Lemma over the *real* test expression (taken from the AST): under the class
    invariant (labels strictly increasing, one per label, max_label the last one) the test implies
    labels[k] == start_label + k for every k -- the untouched array already equals the documented
    result.  Strictly increasing integers are at least 1 apart (step lemmas, discharged); the two
    bounds labels[0] + k <= labels[k] <= labels[n-1] - (n-1-k) follow from them by induction on k
    (the induction schema itself is the one inference not done by the solver)."""
    import ast
    import time

    import z3
    from ..common import DISCHARGED, REFUTED, UNKNOWN, Obligation
    from ..pyvc import solve
    from ..pyvc.contracts import make_symbolic
    from ..pyvc.symexec import Executor, State
    from ..pyvc.values import Unsupported, num_term, to_bool

    # the shortcut: an `if` whose body is a bare `return` and whose test reads the labels
    tests = [n for n in ast.walk(fdef) if isinstance(n, ast.If) and len(n.body) == 1
             and isinstance(n.body[0], ast.Return) and n.body[0].value is None
             and any(isinstance(x, ast.Attribute) and x.attr in ('labels', 'max_label')
                     for x in ast.walk(n.test))]
    if len(tests) != 1:
        raise Unsupported(f'{len(tests)} early-return tests on the labels (expected one)')
    st = State()
    ex = Executor(verifier.reg, consts)
    ex.cur_class = c.cls
    for name, spec in c.params.items():
        st.env[name] = make_symbolic(spec, name, verifier.reg, st)
    self_ = st.env['self']
    lab = self_.fields['labels']
    n = num_term(lab.length)
    s0 = num_term(st.env['start_label'])
    L = lambda k: num_term(lab.fn(k))                               # noqa: E731
    k, m = z3.Int('k'), z3.Int('m')
    inv = [n == num_term(self_.fields['nlabels']), n >= 1, s0 >= 1,
           num_term(self_.fields['max_label']) == L(n - 1),
           z3.ForAll([k, m], z3.Implies(z3.And(0 <= k, k < m, m < n), L(k) < L(m)))]
    ex.cl_mode = True                    # a pure test: evaluated as one formula, no path forks
    try:
        guard = to_bool(ex.eval1(tests[0].test, st))
    finally:
        ex.cl_mode = False
    hy = list(st.hyps()) + inv
    kk = z3.Int('kk')
    goals = [
        ('step-up', 'labels[k] >= labels[0] + k carries from k to k + 1 (strictly increasing integers)',
         hy + [0 <= kk, kk + 1 < n, L(kk) >= L(0) + kk], L(kk + 1) >= L(0) + kk + 1),
        ('step-down', 'labels[k] <= labels[n-1] - (n-1-k) carries from k + 1 to k',
         hy + [0 <= kk, kk + 1 < n, L(kk + 1) <= L(n - 1) - (n - 1 - (kk + 1))],
         L(kk) <= L(n - 1) - (n - 1 - kk)),
        ('shortcut-is-the-identity-relabelling',
         'the early-return test implies labels[k] == start_label + k for every k',
         hy + [guard, 0 <= kk, kk < n, L(kk) >= L(0) + kk, L(kk) <= L(n - 1) - (n - 1 - kk)],
         L(kk) == s0 + kk),
    ]
    base = f'pyvc:{c.key}'
    obs = []
    for kind, text, hyp, goal in goals:
        o = Obligation(f'{base}/lemma:{kind}', c.props[0], 'pyvc', DISCHARGED, text=text)
        t0 = time.time()
        res, model, be = solve.check(list(hyp) + [z3.Not(goal)], timeout_s=verifier.timeout_s, tag=o.oid)
        o.time_s = round(time.time() - t0, 4)
        o.backend = be
        if res == 'sat':
            o.status, o.detail = REFUTED, 'counter-model for the lemma: ' + text
        elif res != 'unsat':
            o.status, o.detail = UNKNOWN, 'solver returned unknown'
        obs.append(o)
    cov = Obligation(f'{base}/cover', c.props[0], 'pyvc', DISCHARGED,
                     text='the shortcut test is satisfiable under the invariant')
    if solve.check(hy + [guard], timeout_s=verifier.timeout_s)[0] != 'sat':
        cov.status, cov.detail = 'error', 'vacuous: the early-return test can never hold'
    obs.append(cov)
    return obs


def register_shortcut(reg):
    reg.add(Contract(
        target=f'{SEG}.relabel_consecutive', props=['C05'], kind='method', tag='shortcut',
        params={'self': 'SegmentationImage', 'start_label': 'pos'},
        custom=_shortcut_lemma,
        note='induction schema on the label index is the trusted inference; its base and step '
             'cases are discharged',
    ))
