"""Sidecar contracts on the real photutils functions (one module per property family).

Each module exposes ``register(reg)``; `build_registry()` assembles them.  Contracts are keyed by
``<repo file>::<qualified name>`` so harmless edits do not dislodge them.
"""
import importlib

MODULES = ['U01_cutouts', 'C01_aperture_geometry', 'C11_background', 'C19_profiles', 'C12_psf', 'C02_photometry', 'C16_aperture_stats', 'C14_peaks', 'C13_psf_models', 'C03_covariance', 'C20_isophote', 'C04_detect', 'C07_catalog', 'C05_segmentation', 'C17_centroids', 'C12_bookkeeping', 'C06_deblend', 'C11_parameters', 'C18_model_image', 'C15_errors']


def build_registry():
    from ..pyvc.contracts import Registry
    reg = Registry()
    for m in MODULES:
        mod = importlib.import_module(f'vf.contracts.{m}')
        mod.register(reg)
    return reg
