"""C15 -- calc_total_error gives the same source variance for data of any dtype: a float copy is
divided (integer data would fail or truncate in place), the caller's array is not written."""
from ..pyvc.contracts import Contract


def register(reg):
    box = '(0, data.shape[0]), (0, data.shape[1])'
    reg.add(Contract(
        target='photutils/utils/errors.py::calc_total_error', props=['C15', 'C10'],
        block=('source_variance', 'source_variance'), tag='source-variance',
        block_like='data.astype(float)',
        params={'data': ('arr', 2, 'real', 'anydtype'), 'effective_gain': ('arr', 2, 'real'),
                'use_units': ('const', False)},
        requires=['effective_gain.shape == data.shape',
                  f'forall(lambda j, i: effective_gain[j, i] >= 0, {box})'],
        ensures=[('shape', 'source_variance.shape == data.shape'),
                 ('data-over-gain-where-the-gain-is-not-zero-clipped-at-zero',
                  'forall(lambda j, i: source_variance[j, i] == ite(effective_gain[j, i] != 0, '
                  f'ite(data[j, i] / effective_gain[j, i] > 0, data[j, i] / effective_gain[j, i], 0), 0), {box})'),
                 ('the-callers-data-is-not-written',
                  f'forall(lambda j, i: data_input[j, i] == old_data[j, i], {box})')],
        mutants=[('source_variance = data.astype(float)', 'source_variance = data'),
                 ('source_variance[~mask] = 0.0', 'source_variance[mask] = 0.0'),
                 ('source_variance = np.maximum(source_variance, 0)', 'source_variance = np.minimum(source_variance, 0)'),
                 ('mask = effective_gain != 0', 'mask = effective_gain > 1')],
    ))
